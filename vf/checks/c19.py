"""C19 — graphql_schema mirrors the Python model and executes like serialize / deserialize.

Monitors: graphql_schema(...) (build outcome), graphql.validate_schema, print_schema, the built type map, graphql_sync results and a
call log written by every generated operation / resolver.  Oracles: (1) validation + printing, (2) model of the documented type
mapping (vf/c19_model.py), (3) apischema.serialize as execution oracle for data, (4) apischema.deserialize as oracle for arguments."""
import json
import random
import typing

from vf import harness
from vf.c19_model import STD_SCALARS, ArgGen, Gen, Loaded, Model, Selection, Values, canon, core, first_diff, nullable
from vf.core import h64

PROP = "C19"
SHARDS = {"quick": 8, "thorough": 16}
TIME_CAP = {"quick": 60, "thorough": 840}
REQUIRED = ["element_conversion_type_checks", "element_conversion_executions", "programs", "schemas_built", "validate_schema_checks", "print_schema_checks", "mapping_types_checked", "mapping_fields_checked",
            "mapping_args_checked", "mapping_input_fields_checked", "mapping_enum_checked", "mapping_union_checked", "mapping_interface_checked",
            "mapping_id_positions", "exec_everything_queries", "exec_data_equal", "exec_enum_leaves", "exec_literal_leaves", "exec_undefined_leaves",
            "exec_id_leaves", "exec_flattened_leaves", "exec_resolver_leaves", "exec_fragment_objects", "arg_valid_experiments", "arg_valid_agree",
            "arg_default_omitted", "arg_invalid_gql", "arg_invalid_api", "arg_invalid_rejected_no_call", "arg_resolver_experiments",
            "handler_experiments", "setting:aliaser=camel", "setting:aliaser=identity", "setting:aliaser=custom", "setting:enum_aliaser=none",
            "setting:id_encoding=both"]
RULE = ("programs = generated Python modules (unique names) over the GraphQL-compatible fragment: dataclass objects (nested, List, Optional, "
        "self-recursion through Optional/List), Enum (str/int values), named Literal of strings, NewType scalars, conversions to primitives, "
        "@interface hierarchies (+types=), unions of objects (named / union_name), flattened fields, field aliases, class aliasers, type_name, "
        "id_types (NewType / converted class; set or predicate), @resolver methods with parameters, Query/Mutation wrappers (alias, error_handler), "
        "input objects (defaults: value / None / Undefined / Enum / default_factory / object / unserialisable; validators; constraints; flatten; "
        "recursion) x settings aliaser{camel,identity,custom} x enum_aliaser{upper,None,custom} x id_encoding{none,both,ser,deser} x union_name. "
        "Per program: validate + print, type-map walk, 2 value sets x one query per root selecting every field (object depth <= 3), then per "
        "operation / first-level resolver with parameters: valid argument data (with omitted defaulted parameters), GraphQL-ill-typed data and "
        "apischema-invalid data (constraints, validators, custom scalars), all passed through variables whose type strings are read from the "
        "built schema; raising resolvers under each error_handler kind. A case = (program, experiment kind, construct); distinct by hash.")
ASSUMPTIONS = ["the model of the mapping is written from docs/graphql/*.md; GraphQL Int is 32 bit, so generated integers stay small",
               "not generated (docs silent => outside the oracle): Any/JSON nullability, list coercion of single values, explicit null for "
               "non-Optional parameters with unserialisable defaults, ID types that are not strings, non-primitive conversion targets, "
               "omitting a required (default-less) Optional parameter",
               "ill-formed programs, never generated or skipped + counted: unnamed Literal, colliding GraphQL field names after flattening / "
               "inheritance (illformed:field-name-collision), class-level aliaser inside an interface hierarchy (would rename inherited interface "
               "fields in the implementer only), re-raising (NoReturn) handlers on classes when the program has a union (an unsupported union "
               "alternative is dropped silently, which would blur attribution)",
               "a default is 'unserializable' (=> nullable, no schema default, Python default at execution) when apischema cannot build the "
               "serialization method of its declared type (conversion class without serializer, also inside List / Union[..., UndefinedType] / objects)",
               "argument validity is decided by the real deserialize(param_type, data, aliaser=...) for data that are well-typed for GraphQL; "
               "data built to be ill-typed for GraphQL (wrong scalar class, unknown enum name, missing / unknown input field, null in non-null list) must be rejected",
               "type names carry a per-program suffix: typing caches List['X'] / ForwardRef('X') objects with their evaluated value process-wide",
               "caches are reset per program"]


def settings_fns(mod, S):
    from apischema.utils import to_camel_case

    A_fn = {"camel": to_camel_case, "identity": mod.al_identity, "custom": mod.al_custom}[S["aliaser"]]
    enc = mod.id_enc if S["id_encoding"] in ("both", "ser") else None
    dec_present = S["id_encoding"] in ("both", "deser")
    return A_fn, enc, (mod.id_enc if dec_present else None)


class Run:
    def __init__(self, env, P, prog_seed, rng):
        self.env, self.P, self.rng, self.prog_seed = env, P, rng, prog_seed
        self.m = Model(P)
        self.loaded = None
        self.schema = None
        self.actual = {}
        self.bad_ops = set()

    def wit(self, **kw):
        return {"prog_seed": self.prog_seed, "tier": self.env.tier, "settings": self.P["settings"], "program": self.m.source, **kw}

    def viol(self, feats, **kw):
        self.env.violation(feats, self.wit(**kw))

    # ------------------------------------------------------------------ build + oracle 1
    def go(self):
        import graphql

        env, m = self.env, self.m
        try:
            self.loaded = Loaded(m.source)
        except Exception as e:
            env.count("program_load_failed")
            if len(env.notes) < 3:
                env.notes.append(f"load failed: {type(e).__name__}: {e}"[:300])
            return
        try:
            self._go(graphql)
        finally:
            self.loaded.unload()

    def _go(self, graphql):
        env, m, mod = self.env, self.m, self.loaded.module
        S = self.P["settings"]
        m.A_fn, self.id_ser, self.id_in_enc = settings_fns(mod, S)
        m.hint = lambda mod_, owner, name: typing.get_type_hints(getattr(getattr(mod_, owner), name), include_extras=True)["return"]
        harness.reset_all()
        for d in m.expected_types().values():
            names = [e["name"] for e in d.get("fields", [])]
            if len(set(names)) != len(names):
                env.count("illformed:field-name-collision")
                return
        env.count("programs")
        for k, v in S.items():
            env.count(f"setting:{k}={v}")
        dk = m.default_kinds()
        for k in dk:
            env.count("program_with_default:" + k)
        o = harness.call(mod.build)
        env.case(m.source, "build")
        if o.kind != "ok":
            cause = self.build_failure_cause(o, dk)
            self.viol({"kind": "schema-build-raises", "exc": o.exc or "ValidationError", "cause": cause}, outcome=o.brief())
            return
        env.count("schemas_built")
        self.schema = schema = o.value
        env.count("validate_schema_checks")
        errs = graphql.validate_schema(schema)
        if errs:
            import re

            m0 = str(errs[0].message)
            cause = ("transitive-interface-not-implemented" if re.search(r"must implement \w+ because it is implemented by", m0)
                     else "interface-field-missing" if re.search(r"Interface field .* expected but .* does not provide it", m0) else "other")
            flat_iface = any(f["flatten"] and self.m.classes[f["t"][1]]["interface"] and self.m.classes[f["t"][1]]["bases"]
                             for c in self.P["classes"] if c["role"] == "out" for f in c["fields"])
            self.viol({"kind": "validate-schema-errors", "cause": cause, "flattened_interface_with_parent": flat_iface}, errors=[str(e) for e in errs][:5])
            return
        env.count("print_schema_checks")
        try:
            graphql.print_schema(schema)
        except Exception as e:
            cause = "enum-default" if ((dk & {"enum", "any-object"}) and "Enum" in str(e) and "cannot represent value" in str(e)) else "other"
            self.viol({"kind": "print-schema-raises", "exc": type(e).__name__, "cause": cause}, message=str(e)[:300])
        self.walk(graphql)
        nsets = 2
        for i in range(nsets):
            self.fill_results(force=(i == nsets - 1))
            for root in ("query", "mutation"):
                self.everything(root)
        self.arg_experiments()
        self.handler_experiments()

    def build_failure_cause(self, o, dk):
        """mechanism-level cause of a graphql_schema failure: exception class + which generated construct the message is about"""
        msg = o.msg or ""
        callables = list(self.m.all_callables())
        if o.exc == "TypeError" and "unhashable type" in msg and (dk & {"unhashable", "unhashable-object", "any-object"}):
            return "unhashable-default"
        if any(c["error_handler"] == "reraise" for c in callables) and (
                (o.exc == "Unsupported" and "NoReturn" in msg) or (o.exc == "TypeError" and (msg.endswith("Cannot take a Union of no types.") or msg.endswith("typing.NoReturn")))):
            return "noreturn-error-handler"   # Unsupported(NoReturn), possibly re-raised from inside an Optional return type
        if o.exc == "TypeError" and "not supported in union serialization" in msg:
            return "union-serialization:" + ("literal" if "Literal[" in msg else "named-union" if "Union[" in msg else "other")
        if o.exc == "TypeError" and "uniquely named types" in msg:
            import re

            name = (re.search(r"named '(\w+)'", msg) or [None, ""])[1]
            unames = {self.m.union_gql_name(u) for u in self.P["unions"]}
            return "duplicate-type:" + ("union" if name in unames else "other")
        if o.exc == "RecursionError" or (o.exc == "TypeError" and "maximum recursion depth" in msg):
            rec = any(core(r["ret"])[0] in ("obj", "union") and not self.under_list(r["ret"]) for c in self.P["classes"] for r in c["resolvers"])
            return "recursion-through-resolver" if rec else "other"
        return "other"

    @staticmethod
    def under_list(t):
        while t[0] in ("opt", "undef", "list"):
            if t[0] == "list":
                return True
            t = t[1]
        return False

    # ------------------------------------------------------------------ oracle 2: type mapping
    def name_cause(self, expected, plain, observed_names):
        return "alias" if (expected != plain and plain in observed_names) else "other"

    def walk(self, graphql):
        env, m, schema = self.env, self.m, self.schema
        exp = m.expected_types()
        obs = {n: t for n, t in schema.type_map.items() if not n.startswith("__") and n not in STD_SCALARS and n not in ("Query", "Mutation")}
        missing, extra = sorted(set(exp) - set(obs)), sorted(set(obs) - set(exp))
        env.case(m.source, "typeset")
        if missing or extra:
            self.viol({"kind": "type-set-mismatch", "missing_kinds": sorted({exp[n]["kind"] for n in missing}),
                       "extra_kinds": sorted({kind_of(graphql, obs[n]) for n in extra})}, missing=missing, extra=extra)
        for name, d in exp.items():
            if name not in obs:
                continue
            t = obs[name]
            env.count("mapping_types_checked")
            k = kind_of(graphql, t)
            if k != d["kind"]:
                self.viol({"kind": "kind-mismatch", "expected": d["kind"], "observed": k}, type=name)
                continue
            if k == "enum":
                env.count("mapping_enum_checked")
                want = {}
                for n, v in d["values"].items():
                    want[n] = getattr(getattr(self.loaded.module, v[1]), v[2]) if v[0] == "member" else v[1]
                got = {n: v.value for n, v in t.values.items()}
                if set(want) != set(got):
                    self.viol({"kind": "enum-values-mismatch", "what": "names", "enum_aliaser": self.P["settings"]["enum_aliaser"]}, type=name, expected=sorted(want), observed=sorted(got))
                elif any(want[n] is not got[n] and want[n] != got[n] for n in want):
                    self.viol({"kind": "enum-values-mismatch", "what": "internal-values"}, type=name, expected=repr(want), observed=repr(got))
            elif k == "union":
                env.count("mapping_union_checked")
                got = {x.name for x in t.types}
                if got != d["members"]:
                    self.viol({"kind": "union-members-mismatch"}, type=name, expected=sorted(d["members"]), observed=sorted(got))
            elif k in ("object", "interface"):
                if k == "interface":
                    env.count("mapping_interface_checked")
                got_i = {i.name for i in t.interfaces}
                if got_i != d["interfaces"]:
                    self.viol({"kind": "interfaces-mismatch", "on": k}, type=name, expected=sorted(d["interfaces"]), observed=sorted(got_i))
                elif d["interfaces"]:
                    env.count("mapping_implements_checked")
                self.walk_fields(name, d["fields"], t.fields, "output-field")
            elif k == "input":
                self.walk_input(name, d["fields"], t.fields)
        # roots
        for root, rt in (("query", schema.query_type), ("mutation", schema.mutation_type)):
            ops = [o for o in self.P["ops"] if o["root"] == root]
            if not ops:
                if rt is not None:
                    self.viol({"kind": "type-set-mismatch", "missing_kinds": [], "extra_kinds": ["root:" + root]})
                continue
            ents = [{"name": m.A(o["alias"] or o["name"]), "plain": m.A(o["name"]), "kind": "resolver", "owner": None, "spec": o, "path": []} for o in ops]
            self.walk_fields(rt.name, ents, rt.fields, "operation")

    def walk_fields(self, tname, ents, fields, view):
        env, m = self.env, self.m
        exp_names = [e["name"] for e in ents]
        obs_names = list(fields)
        env.case(m.source, "fields", tname)
        if len(set(exp_names)) != len(exp_names):
            env.count("abstain:expected-name-collision")
            return
        for e in ents:
            v = view if e["kind"] == "field" or view == "operation" else "resolver"
            env.count("mapping_fields_checked")
            act = e["name"]
            if e["name"] not in fields:
                cause = self.name_cause(e["name"], e["plain"], obs_names)
                self.viol({"kind": "name-mismatch", "view": v, "cause": cause, "flattened": bool(e["path"])} if e["path"] else {"kind": "name-mismatch", "view": v, "cause": cause},
                          type=tname, expected=e["name"], observed=obs_names)
                if cause != "alias" or e["plain"] in exp_names:
                    if view == "operation":
                        self.bad_ops.add(e["spec"]["name"])
                    self.actual[(tname, e["name"])] = None
                    continue
                act = e["plain"]
                self.actual[(tname, e["name"])] = act
            f = fields[act]
            spec = e["spec"]
            t = spec["t"] if e["kind"] == "field" else m.ret_type(spec)
            want = m.gql_type(t, "out")
            got = str(f.type)
            if m.is_id(core(t)):
                env.count("mapping_id_positions")
            if want != got:
                self.viol({"kind": "type-mismatch", "view": v, "diff": type_diff(want, got), "construct": construct_of(m, t),
                           "error_handler": spec.get("error_handler", "n/a")}, type=tname, field=act, expected=want, observed=got)
            if e["kind"] == "resolver":
                self.walk_args(tname, act, spec, f)
        for n in obs_names:
            if n not in exp_names and n not in [a for a in self.actual.values()]:
                self.viol({"kind": "extra-field", "view": view}, type=tname, field=n, expected=exp_names)

    def walk_args(self, tname, fname, spec, f):
        env, m = self.env, self.m
        exp = [m.arg_expect(p) for p in spec["params"]]
        obs_names = list(f.args)
        for p, (name, plain, tstr, has_default) in zip(spec["params"], exp):
            import graphql

            env.count("mapping_args_checked")
            if name not in f.args:
                self.viol({"kind": "name-mismatch", "view": "argument", "cause": self.name_cause(name, plain, obs_names)}, type=tname, field=fname, expected=name, observed=obs_names)
                self.bad_ops.add(spec["name"])
                continue
            a = f.args[name]
            if m.is_id(core(p["t"])):
                env.count("mapping_id_positions")
            if str(a.type) != tstr:
                self.viol({"kind": "type-mismatch", "view": "argument", "diff": type_diff(tstr, str(a.type)), "construct": construct_of(m, p["t"]),
                           "default": p["default"]["kind"] if p["default"] else "required", "optional_literal_inside": self.has_optlit(p["t"])}, type=tname, field=fname, arg=name, expected=tstr, observed=str(a.type))
            if (a.default_value is not graphql.Undefined) != has_default:
                self.viol({"kind": "default-presence-mismatch", "view": "argument", "default": p["default"]["kind"] if p["default"] else "required",
                           "construct": construct_of(m, p["t"]), "optional_literal_inside": self.has_optlit(p["t"])},
                          type=tname, field=fname, arg=name, expected=has_default, observed=repr(a.default_value)[:100])
        if len(obs_names) != len(exp) and all(e[0] in f.args for e in exp):
            self.viol({"kind": "extra-field", "view": "argument"}, type=tname, field=fname, observed=obs_names)

    def has_optlit(self, t, seen=None):
        """does the (input) type contain an Optional / Undefined-union around a named Literal (directly or inside its objects)"""
        seen = seen if seen is not None else set()
        if t[0] in ("opt", "undef"):
            return t[1][0] == "lit" or self.has_optlit(t[1], seen)
        if t[0] == "list":
            return self.has_optlit(t[1], seen)
        if t[0] == "obj" and t[1] not in seen:
            seen.add(t[1])
            return any(self.has_optlit(f["t"], seen) for _, f in self.m.dc_fields(t[1]))
        return False

    def walk_input(self, tname, ents, fields):
        import graphql

        env, m = self.env, self.m
        exp_names = [e["name"] for e in ents]
        obs_names = list(fields)
        for e in ents:
            env.count("mapping_input_fields_checked")
            if e["name"] not in fields:
                self.viol({"kind": "name-mismatch", "view": "input-field", "cause": self.name_cause(e["name"], e["plain"], obs_names)}, type=tname, expected=e["name"], observed=obs_names)
                continue
            f = fields[e["name"]]
            tstr, has_default = m.in_field_expect(e)
            d = e["spec"]["default"]
            if m.is_id(core(e["spec"]["t"])):
                env.count("mapping_id_positions")
            if str(f.type) != tstr:
                self.viol({"kind": "type-mismatch", "view": "input-field", "diff": type_diff(tstr, str(f.type)), "construct": construct_of(m, e["spec"]["t"]),
                           "default": d["kind"] if d else "required", "optional_literal_inside": self.has_optlit(e["spec"]["t"])}, type=tname, field=e["name"], expected=tstr, observed=str(f.type))
            if (f.default_value is not graphql.Undefined) != has_default:
                self.viol({"kind": "default-presence-mismatch", "view": "input-field", "default": d["kind"] if d else "required",
                           "construct": construct_of(m, e["spec"]["t"]), "optional_literal_inside": self.has_optlit(e["spec"]["t"])},
                          type=tname, field=e["name"], expected=has_default, observed=repr(f.default_value)[:100])
        for n in obs_names:
            if n not in exp_names:
                self.viol({"kind": "extra-field", "view": "input-field"}, type=tname, field=n, expected=exp_names)

    # ------------------------------------------------------------------ values
    def fill_results(self, force):
        mod, m = self.loaded.module, self.m
        vals = Values(m, self.rng)
        self.result_src = {}
        mod.RESULTS.clear()
        for op in self.P["ops"]:
            self.result_src[op["name"]] = vals.src(op["ret"], 0, force=force)
        for c in self.P["classes"]:
            for r in c["resolvers"]:
                self.result_src[f"{c['name']}.{r['name']}"] = vals.src(r["ret"], 1, force=False)
        for k, s in self.result_src.items():
            mod.RESULTS[k] = eval(s, mod.__dict__)

    def valid_args(self, key, params, want=None):
        """{param name: (gql, plain)}; defaulted parameters are omitted half of the time"""
        ag = ArgGen(self.m, self.rng, self.id_in_enc)
        ag.want = want
        out = {}
        for p in params:
            if p["default"] is not None and self.rng.random() < 0.5:
                continue
            if p["default"] is not None and p["default"].get("nonopt") and self.rng.random() < 0.6:
                out[p["name"]] = (None, None)  # explicit null where only the None default makes the argument nullable
                self.env.count("explicit_null_for_none_default")
                continue
            out[p["name"]] = ag.arg(p["t"])
        return out, ag.done

    # ------------------------------------------------------------------ oracle 3: execution of a query selecting every field
    def var_allocator(self):
        vars_, defs = {}, []
        schema = self.schema

        def alloc(tname, fname, argname, gql_value, plain_name=None):
            t = schema.type_map.get(tname)
            f = t.fields.get(fname) if t is not None else None
            if f is None:
                return None
            a = f.args.get(argname)
            if a is None:
                return None
            base = str(a.type).replace("!", "").replace("[", "").replace("]", "")
            if base in ("ID", "Int", "String", "Boolean", "Float") and self.rng.random() < 0.5:
                # built-in scalars (and lists of them): half of the time written as a literal in the document instead of
                # going through a variable (the two enter a scalar type through parse_literal / parse_value)
                try:
                    lit = json.dumps(gql_value, ensure_ascii=False, allow_nan=False)
                except (ValueError, TypeError):
                    lit = None
                if lit is not None and "{" not in lit:
                    self.env.count("arguments_as_literals")
                    return lit, argname
            v = f"v{len(vars_)}"
            vars_[v] = gql_value
            defs.append(f"${v}: {a.type}")     # the variable's type string is read from the built schema
            return "$" + v, argname

        return vars_, defs, alloc

    def everything(self, root):
        import graphql
        from apischema import Undefined, serialize

        env, m, mod = self.env, self.m, self.loaded.module
        ops = [o for o in self.P["ops"] if o["root"] == root and o["name"] not in self.bad_ops]
        if not ops:
            return
        vars_, defs, alloc = self.var_allocator()
        calls = {}

        def arg_values(key, params):
            vals, _ = self.valid_args(key, params)
            calls[key] = vals
            return vals

        sel = Selection(m, self.loaded, {k: v for k, v in self.actual.items() if v}, alloc, arg_values, self.id_ser)
        rname = "Query" if root == "query" else "Mutation"
        parts, included = [], []
        for op in ops:
            ent = {"name": m.A(op["alias"] or op["name"]), "kind": "resolver", "owner": None, "spec": op, "path": []}
            act = self.actual.get((rname, ent["name"]), ent["name"])
            head = ent["name"] if act == ent["name"] else f"{ent['name']}: {act}"
            vals = arg_values(op["name"], op["params"])
            args, ok = [], True
            for p in op["params"]:
                if p["name"] in vals:
                    v = alloc(rname, act, m.A(p["alias"] or p["name"]), vals[p["name"]][0])
                    if v is None:
                        ok = False
                        break
                    args.append(f"{v[1]}: {v[0]}")
            if not ok:
                env.count("abstain:op-skipped-after-mapping-violation")
                continue
            if args:
                head += "(" + ", ".join(args) + ")"
            node = sel.build(op["ret"])
            parts.append(head + " " + sel.text(node))
            included.append((op, ent, node))
        if not parts:
            return
        q = ("query" if root == "query" else "mutation") + (f"({', '.join(defs)})" if defs else "") + " { " + " ".join(parts) + " }"
        mod.LOG.clear()
        mod.RAISE.clear()
        env.count("exec_everything_queries")
        try:
            res = graphql.graphql_sync(self.schema, q, variable_values=vars_)
        except Exception as e:
            self.viol({"kind": "graphql-sync-raises", "exc": type(e).__name__}, query=q, variables=vars_, message=str(e)[:300])
            return
        log = list(mod.LOG)
        env.case(m.source, "everything", root, q)
        wit = dict(query=q, variables=vars_, results=self.result_src)
        if res.errors:
            f = self.classify_exec_error(res.errors, calls, included)
            self.viol(f, **wit, errors=[str(e)[:300] for e in res.errors][:4])
            return
        # expected data
        exp, tags = {}, {}
        for op, ent, node in included:
            rv = mod.RESULTS[op["name"]]
            rt = typing.get_type_hints(getattr(mod, op["name"]), include_extras=True)["return"]
            try:
                ser = None if rv is Undefined else serialize(rt, rv, aliaser=m.A_fn)
            except Exception as e:
                env.count("abstain:serialize-oracle-raises:" + type(e).__name__)
                return
            d, tg = sel.expect(m.ret_type(op), ser, rv, node)
            exp[ent["name"]], tags[ent["name"]] = d, tg
        diff = first_diff(exp, res.data, tags)
        count_tags(env, tags)
        env.count("exec_fragment_objects", sel.fragments)
        if diff:
            path, tag, e_, g_ = diff
            self.viol({"kind": "data-mismatch", "construct": tag, "aliaser": self.P["settings"]["aliaser"] if "prim" not in tag else "n/a"},
                      **wit, path=list(path), expected=e_, observed=g_)
        else:
            env.count("exec_data_equal")
        # call log: every logged call must carry the expected argument values
        self.check_log(log, calls, wit, exact_ops=[op["name"] for op, _, _ in included])

    def classify_exec_error(self, errors, calls, included):
        """unexpected errors while executing a valid query: mechanism-level class of the first message"""
        import re

        msg = str(errors[0].message)
        has_flatten = any(f["flatten"] for c in self.P["classes"] if c["role"] == "out" for f in c["fields"])
        if re.match(r"'\w+' object has no attribute '\w+'", msg) and has_flatten:
            cause = "flattened-resolver-context"
        elif msg.startswith("[{'loc'"):
            att = self.omitted_attribution(calls, msg)
            return {"kind": "exec-errors", "on": "valid-query", "cause": "argument-rejected", "omitted_default": att,
                    "aliaser": self.P["settings"]["aliaser"] if att == "parameter:object" else "n/a"}
        elif msg.startswith("Variable '$"):
            cause = "variable-rejected"
        else:
            cause = "other"
        return {"kind": "exec-errors", "on": "valid-query", "cause": cause}

    PRIORITY = ["unserializable", "object", "enum", "unhashable", "undef", "none", "value"]

    def omitted_attribution(self, calls, msg=""):
        """which omitted default could explain a rejection of valid arguments: the parameter named by the first error location when
        it was omitted (its default kind), else the most specific kind among omitted defaulted input fields of that parameter's data;
        without a usable location: most specific kind over everything omitted ("none" when nothing was omitted)"""
        import re

        mloc = re.match(r"\[\{'loc': \['(\w+)'", msg or "")
        pk, fk = set(), set()
        for key, vals in calls.items():
            for p in self.spec_of(key)["params"]:
                hit = mloc is not None and self.m.A(p["alias"] or p["name"]) == mloc.group(1)
                if p["name"] not in vals:
                    if p["default"] is not None:
                        if hit:
                            return "parameter:" + p["default"]["kind"]
                        pk.add(p["default"]["kind"])
                else:
                    ks = self.omitted_field_kinds(p["t"], vals[p["name"]][0])
                    if hit:
                        for k in self.PRIORITY:
                            if k in ks:
                                return "input-field:" + k
                        return "none"
                    fk |= ks
        for where, ks in (("parameter", pk), ("input-field", fk)):
            for k in self.PRIORITY:
                if k in ks and k in ("unserializable", "object", "enum", "unhashable"):
                    return f"{where}:{k}"
        for where, ks in (("parameter", pk), ("input-field", fk)):
            for k in self.PRIORITY:
                if k in ks:
                    return f"{where}:{k}"
        return "none"

    def omitted_field_kinds(self, t, g):
        out = set()
        while t[0] in ("opt", "undef"):
            t = t[1]
        if g is None:
            return out
        if t[0] == "list" and isinstance(g, list):
            for x in g:
                out |= self.omitted_field_kinds(t[1], x)
        elif t[0] == "obj" and isinstance(g, dict):
            for e in self.m.in_fields(t[1]):
                if e["name"] not in g:
                    if e["spec"]["default"] is not None:
                        out.add(e["spec"]["default"]["kind"])
                else:
                    out |= self.omitted_field_kinds(e["spec"]["t"], g[e["name"]])
        return out

    def nested_default_kinds(self, t, seen=None):
        seen = seen or set()
        c = core(t)
        out = set()
        if c[0] == "obj" and c[1] not in seen:
            seen.add(c[1])
            for e in self.m.in_fields(c[1]):
                d = e["spec"]["default"]
                if d is not None:
                    out.add(d["kind"])
                out |= self.nested_default_kinds(e["spec"]["t"], seen)
        return out

    def spec_of(self, key):
        if "." in key:
            c, r = key.split(".")
            return next(x for x in self.m.classes[c]["resolvers"] if x["name"] == r)
        return next(o for o in self.P["ops"] if o["name"] == key)

    def expected_call(self, key, vals):
        """expected keyword arguments: deserialize(param_type, plain, aliaser=...) for given ones, the Python default otherwise.
        returns (dict name -> canon, None) or (None, reason) when deserialize rejects"""
        from apischema import ValidationError, deserialize

        mod, m = self.loaded.module, self.m
        spec = self.spec_of(key)
        fn = getattr(mod, key) if "." not in key else getattr(getattr(mod, key.split(".")[0]), key.split(".")[1])
        hints = typing.get_type_hints(fn, include_extras=True)
        import inspect

        sig = inspect.signature(fn)
        out = {}
        for p in spec["params"]:
            if p["name"] in vals and vals[p["name"]][1] is None and p["default"] is not None and p["default"].get("nonopt"):
                out[p["name"]] = canon(None)  # null for `x: int = None`: the schema's nullability comes from the default, which it designates
            elif p["name"] in vals:
                try:
                    out[p["name"]] = canon(deserialize(hints[p["name"]], vals[p["name"]][1], aliaser=m.A_fn))
                except ValidationError as e:
                    return None, e.errors
            else:
                out[p["name"]] = canon(sig.parameters[p["name"]].default)
        return out, None

    def check_log(self, log, calls, wit, exact_ops=()):
        env, m = self.env, self.m
        by_key = {}
        for key, kw in log:
            by_key.setdefault(key, []).append(kw)
        for op in exact_ops:
            if len(by_key.get(op, [])) != 1:
                self.viol({"kind": "call-count", "view": "operation", "observed": len(by_key.get(op, []))}, **wit, operation=op)
        for key, entries in by_key.items():
            spec = self.spec_of(key)
            if not spec["params"]:
                continue
            vals = calls.get(key)
            if vals is None:
                continue
            exp, why = self.expected_call(key, vals)
            if exp is None:
                env.count("abstain:valid-args-rejected-by-deserialize")
                continue
            for kw in entries[:3]:
                got = {k: canon(v) for k, v in kw.items()}
                env.count("exec_call_args_checked")
                if got != exp:
                    self.report_arg_mismatch(key, spec, vals, exp, got, wit)
                    break

    def report_arg_mismatch(self, key, spec, vals, exp, got, wit):
        view = "resolver" if "." in key else "operation"
        for p in spec["params"]:
            n = p["name"]
            if exp.get(n) != got.get(n):
                if n not in vals:
                    leaf = first_leaf_diff(exp.get(n), got.get(n))
                    cons = p["default"]["kind"] + ("/enum" if p["default"].get("is_object") and leaf and leaf[0] == "enum" else "")
                    self.viol({"kind": "default-not-passed", "view": "parameter", "construct": cons, "on": view},
                              **{**wit, "target": key}, param=n, expected=repr(exp.get(n)), observed=repr(got.get(n)))
                else:
                    inner = self.default_diff_kind(p["t"], exp.get(n), got.get(n))
                    if inner:
                        self.viol({"kind": "default-not-passed", "view": "input-field", "construct": inner, "on": view},
                                  **{**wit, "target": key}, param=n, expected=repr(exp.get(n)), observed=repr(got.get(n)))
                    else:
                        self.viol({"kind": "arg-value-mismatch", "view": view, "construct": construct_of(self.m, p["t"])},
                                  **{**wit, "target": key}, param=n, given=vals[n][0], expected=repr(exp.get(n)), observed=repr(got.get(n)))
                return

    def default_diff_kind(self, t, exp, got):
        """when the difference sits in an input-object field that was omitted (so its default applies): that default's kind"""
        kinds = self.nested_default_kinds(t)
        if not kinds:
            return None

        def walk(e, g):
            if isinstance(e, tuple) and isinstance(g, tuple) and len(e) == 3 and len(g) == 3 and e[0] == g[0] == "obj" and e[1] == g[1]:
                for (fn, ev), (_, gv) in zip(e[2], g[2]):
                    if ev != gv:
                        r = walk(ev, gv)
                        if r:
                            return r
                        c = self.m.classes.get(e[1])
                        for _, f in self.m.dc_fields(e[1]) if c else []:
                            if f["name"] == fn and f["default"] is not None:
                                return f["default"]["kind"]
                        return None
            if isinstance(e, tuple) and isinstance(g, tuple) and e and g and e[0] == g[0] == "list" and len(e[1]) == len(g[1]):
                for ev, gv in zip(e[1], g[1]):
                    if ev != gv:
                        return walk(ev, gv)
            return None

        return walk(exp, got)

    # ------------------------------------------------------------------ oracle 4: arguments
    def targets(self):
        """operations with parameters + resolvers with parameters on the class an operation returns"""
        m = self.m
        out = []
        for op in self.P["ops"]:
            if op["name"] in self.bad_ops:
                continue
            if op["params"]:
                out.append(("op", op, None, None))
        for op in self.P["ops"]:
            if op["root"] != "query" or op["name"] in self.bad_ops:
                continue
            c = core(op["ret"])
            if c[0] != "obj":
                continue
            tname = m.gql_name(c[1], "out")
            for e in m.out_fields(c[1]):
                if e["kind"] == "resolver" and e["spec"]["params"] and not e["path"] and self.actual.get((tname, e["name"]), e["name"]):
                    if not any(t[0] == "res" and t[1] is e["spec"] for t in out):
                        out.append(("res", e["spec"], op, e))
        return out

    def build_target_query(self, target, vals, raise_carrier_args=True):
        """narrow query for one target; returns (query, variables, involved calls) or None"""
        m = self.m
        kind, spec, carrier, ent = target
        vars_, defs, alloc = self.var_allocator()
        calls = {}

        def field(tname, ename, spec_, key, vals_, ret):
            act = self.actual.get((tname, ename), ename)
            if act is None:
                return None
            head = act
            args = []
            for p in spec_["params"]:
                if p["name"] in vals_:
                    v = alloc(tname, act, m.A(p["alias"] or p["name"]), vals_[p["name"]][0])
                    if v is None:
                        return None
                    args.append(f"{v[1]}: {v[0]}")
            calls[key] = vals_
            return head + ("(" + ", ".join(args) + ")" if args else "")

        if kind == "op":
            rname = "Query" if spec["root"] == "query" else "Mutation"
            h = field(rname, m.A(spec["alias"] or spec["name"]), spec, spec["name"], vals, spec["ret"])
            if h is None:
                return None
            sub = " { __typename }" if core(spec["ret"])[0] in ("obj", "union") else ""
            q = ("query" if spec["root"] == "query" else "mutation") + (f"({', '.join(defs)})" if defs else "") + " { " + h + sub + " }"
            return q, vars_, calls
        cvals, _ = self.valid_args(carrier["name"], [p for p in carrier["params"]])
        # required carrier parameters are always given; defaulted ones may be omitted
        h0 = field("Query", m.A(carrier["alias"] or carrier["name"]), carrier, carrier["name"], cvals, carrier["ret"])
        if h0 is None:
            return None
        cname = core(carrier["ret"])[1]
        key = f"{ent['owner']}.{spec['name']}"
        h1 = field(m.gql_name(cname, "out"), ent["name"], spec, key, vals, spec["ret"])
        if h1 is None:
            return None
        sub = " { __typename }" if core(spec["ret"])[0] in ("obj", "union") else ""
        q = "query" + (f"({', '.join(defs)})" if defs else "") + " { " + h0 + " { " + h1 + sub + " } }"
        return q, vars_, calls

    def arg_experiments(self):
        import graphql

        env, m, mod = self.env, self.m, self.loaded.module
        n_valid = 2 if env.quick() else 3
        n_bad = 2 if env.quick() else 4
        for target in self.targets():
            kind, spec, carrier, ent = target
            key = spec["name"] if kind == "op" else f"{ent['owner']}.{spec['name']}"
            view = "operation" if kind == "op" else "resolver"
            plan = [None] * n_valid + ["gql", "api"] * n_bad
            for want in plan[: n_valid + 2 * n_bad]:
                vals, done = self.valid_args(key, spec["params"], want=want)
                if want and not done:
                    env.count(f"abstain:no-{want}-violation-injectable")
                    continue
                # required parameters are always passed
                built = self.build_target_query(target, vals)
                if built is None:
                    env.count("abstain:target-skipped-after-mapping-violation")
                    break
                q, vars_, calls = built
                exp, why = self.expected_call(key, vals)
                mod.LOG.clear()
                mod.RAISE.clear()
                try:
                    res = graphql.graphql_sync(self.schema, q, variable_values=vars_)
                except Exception as e:
                    self.viol({"kind": "graphql-sync-raises", "exc": type(e).__name__}, query=q, variables=vars_, message=str(e)[:300])
                    continue
                log = list(mod.LOG)
                mine = [kw for k, kw in log if k == key]
                wit = dict(query=q, variables=vars_, target=key, injected=done, results=self.result_src)
                env.case(m.source, "args", key, want, done, json.dumps(vars_, sort_keys=True, default=str))
                if kind == "res":
                    env.count("arg_resolver_experiments")
                if want == "gql" or exp is None:
                    # invalid: GraphQL error and the target never invoked
                    env.count("arg_invalid_gql" if want == "gql" else "arg_invalid_api")
                    if want != "gql":
                        env.count("arg_invalid:" + (done or "deserialize-rejects"))
                    else:
                        env.count("arg_invalid:" + done)
                    bad = "gql" if want == "gql" else "api"
                    if kind == "res" and not mine and not res.errors and self.carrier_empty(res.data):
                        env.count("abstain:carrier-returned-nothing")
                        continue
                    if mine:
                        self.viol({"kind": "invalid-arg-accepted", "how": "resolver-invoked", "bad": bad, "construct": done or "deserialize-rejects", "view": view,
                                   "error_handler": spec["error_handler"]}, **wit, deserialize_errors=why, errors=[str(e)[:200] for e in (res.errors or [])][:3], log=repr(mine)[:300])
                    elif not res.errors:
                        self.viol({"kind": "invalid-arg-accepted", "how": "no-error", "bad": bad, "construct": done or "deserialize-rejects", "view": view,
                                   "error_handler": spec["error_handler"]}, **wit, deserialize_errors=why, data=res.data)
                    else:
                        env.count("arg_invalid_rejected_no_call")
                    continue
                env.count("arg_valid_experiments")
                if any(p["name"] not in vals for p in spec["params"]):
                    env.count("arg_default_omitted")
                    for p in spec["params"]:
                        if p["name"] not in vals:
                            env.count("arg_default_omitted:" + p["default"]["kind"])
                if want == "api":
                    env.count("abstain:api-violation-accepted-by-deserialize")
                if not mine:
                    omitted = sorted({p["default"]["kind"] for p in spec["params"] if p["name"] not in vals})
                    if kind == "res" and not res.errors and self.carrier_empty(res.data):
                        env.count("abstain:carrier-returned-nothing")
                        continue
                    feats = self.classify_exec_error(res.errors, calls, None) if res.errors else {"cause": "no-error-no-call", "omitted_default": self.omitted_attribution(calls), "aliaser": "n/a"}
                    feats = {**feats, "kind": "valid-arg-rejected", "view": view}
                    feats.pop("on", None)
                    self.viol(feats, **wit, errors=[str(e)[:300] for e in (res.errors or [])][:3], data=res.data)
                    continue
                ok = True
                for kw in mine[:3]:
                    got = {k: canon(v) for k, v in kw.items()}
                    if got != exp:
                        self.report_arg_mismatch(key, spec, vals, exp, got, wit)
                        ok = False
                        break
                if ok:
                    env.count("arg_valid_agree")

    @staticmethod
    def carrier_empty(data):
        """no object reached under the carrier operation (null / empty lists)"""
        stack = list((data or {}).values())
        while stack:
            x = stack.pop()
            if isinstance(x, dict):
                return False
            if isinstance(x, list):
                stack.extend(x)
        return True

    # ------------------------------------------------------------------ error handlers
    def handler_experiments(self):
        """a raising operation / resolver: error_handler None or returning None => null without error; no handler or re-raising one => GraphQL error"""
        import graphql

        env, m, mod = self.env, self.m, self.loaded.module
        tg = [("op", op, None, None) for op in self.P["ops"] if op["name"] not in self.bad_ops]
        for op in self.P["ops"]:
            c = core(op["ret"])
            if op["root"] == "query" and c[0] == "obj" and op["name"] not in self.bad_ops:
                for e in m.out_fields(c[1]):
                    if e["kind"] == "resolver" and not e["path"] and self.actual.get((m.gql_name(c[1], "out"), e["name"]), e["name"]):
                        tg.append(("res", e["spec"], op, e))
        self.rng.shuffle(tg)
        for target in tg[:4]:
            kind, spec, carrier, ent = target
            key = spec["name"] if kind == "op" else f"{ent['owner']}.{spec['name']}"
            vals = {}
            ag = ArgGen(m, self.rng, self.id_in_enc)
            for p in spec["params"]:
                if p["default"] is None:
                    vals[p["name"]] = ag.arg(p["t"])
            if self.expected_call(key, vals)[0] is None:
                continue
            built = self.build_target_query(target, vals)
            if built is None:
                continue
            q, vars_, calls = built
            mod.LOG.clear()
            mod.RAISE.clear()
            mod.RAISE.add(key)
            try:
                res = graphql.graphql_sync(self.schema, q, variable_values=vars_)
            except Exception as e:
                self.viol({"kind": "graphql-sync-raises", "exc": type(e).__name__}, query=q, variables=vars_, message=str(e)[:300])
                continue
            finally:
                mod.RAISE.clear()
            invoked = any(k == key for k, _ in mod.LOG)
            if not invoked:
                env.count("abstain:handler-target-not-reached")
                continue
            env.count("handler_experiments")
            env.count("handler:" + spec["error_handler"])
            env.case(m.source, "handler", key, spec["error_handler"])
            swallowed = spec["error_handler"] in ("none", "custom_none")
            boom = any("boom " + key in str(e) for e in (res.errors or []))
            wit = dict(query=q, variables=vars_, target=key, errors=[str(e)[:200] for e in (res.errors or [])][:3], data=res.data)
            if swallowed and res.errors:
                self.viol({"kind": "error-handler-mismatch", "handler": spec["error_handler"], "observed": "error-reported"}, **wit)
            elif not swallowed and not boom:
                self.viol({"kind": "error-handler-mismatch", "handler": spec["error_handler"], "observed": "error-lost"}, **wit)
            elif swallowed:
                d = res.data
                leaf = next(iter(d.values())) if d else None
                if kind == "res":
                    items = leaf if isinstance(leaf, list) else [leaf]
                    vals_ = [next(iter(i.values())) for i in items if isinstance(i, dict)]
                else:
                    vals_ = [leaf]
                if any(v is not None for v in vals_):
                    self.viol({"kind": "error-handler-mismatch", "handler": spec["error_handler"], "observed": "non-null"}, **wit)


def first_leaf_diff(e, g):
    """first leaf of the expected canonical image that differs from the observed one"""
    if e == g:
        return None
    if isinstance(e, tuple) and isinstance(g, tuple) and len(e) == 3 and len(g) == 3 and e[0] == g[0] == "obj" and e[1] == g[1] and len(e[2]) == len(g[2]):
        for (_, ev), (_, gv) in zip(e[2], g[2]):
            r = first_leaf_diff(ev, gv)
            if r:
                return r
    if isinstance(e, tuple) and isinstance(g, tuple) and len(e) == 2 and len(g) == 2 and e[0] == g[0] == "list" and len(e[1]) == len(g[1]):
        for ev, gv in zip(e[1], g[1]):
            r = first_leaf_diff(ev, gv)
            if r:
                return r
    return e


def kind_of(graphql, t):
    return ("object" if isinstance(t, graphql.GraphQLObjectType) else "interface" if isinstance(t, graphql.GraphQLInterfaceType)
            else "input" if isinstance(t, graphql.GraphQLInputObjectType) else "enum" if isinstance(t, graphql.GraphQLEnumType)
            else "union" if isinstance(t, graphql.GraphQLUnionType) else "scalar" if isinstance(t, graphql.GraphQLScalarType) else type(t).__name__)


def type_diff(want, got):
    if want.replace("!", "") == got.replace("!", ""):
        return "nullability"
    w, g = want.strip("[]!"), got.strip("[]!")
    if "ID" in (w, g):
        return "id"
    if want.replace(w, "") == got.replace(g, ""):
        return "named-type"
    return "shape"


def construct_of(m, t):
    parts = []
    while t[0] in ("list", "opt", "undef"):
        parts.append(t[0])
        t = t[1]
    parts.append("id" if m.is_id(t) else t[0])
    return "/".join(parts)


def count_tags(env, tags):
    stack = [tags]
    while stack:
        x = stack.pop()
        if isinstance(x, dict):
            stack.extend(v for k, v in x.items() if not k.startswith("$edge:"))
        elif isinstance(x, list):
            stack.extend(x)
        elif isinstance(x, str):
            if "enum" in x:
                env.count("exec_enum_leaves")
            elif "literal" in x:
                env.count("exec_literal_leaves")
            elif "undefined" in x:
                env.count("exec_undefined_leaves")
            elif x.endswith("id"):
                env.count("exec_id_leaves")
            if x.startswith("flattened:") or ":flattened:" in x:
                env.count("exec_flattened_leaves")
            if x.startswith("resolver:"):
                env.count("exec_resolver_leaves")
            if x == "typename":
                env.count("exec_objects")


def b36(n):
    out = ""
    n %= 36**7
    for _ in range(7):
        n, r = divmod(n, 36)
        out += "0123456789abcdefghijklmnopqrstuvwxyz"[r]
    return out


def one_program(env, prog_seed, rich=False):
    rng = random.Random(prog_seed)
    P = Gen(rng, suffix="_" + b36(prog_seed)).program()
    run = Run(env, P, prog_seed, rng)
    run.go()
    return run


CONV_SRC = """
from dataclasses import dataclass, field
from typing import Dict, List, Optional
from apischema.graphql import Query, graphql_schema
from apischema.metadata import conversion


@dataclass
class A:
    i: int


def a_to_int(a: A) -> int:
    return a.i


def a_to_str(a: A) -> str:
    return "s" + str(a.i)


@dataclass
class H:
    xs: List[A] = field(metadata=conversion(serialization=a_to_int))
    o: Optional[A] = field(default=None, metadata=conversion(serialization=a_to_str))
    xss: List[List[A]] = field(default_factory=list, metadata=conversion(serialization=a_to_int))
    ox: Optional[List[A]] = field(default=None, metadata=conversion(serialization=a_to_str))
    plain: List[A] = field(default_factory=list)
    one: A = field(default_factory=lambda: A(7), metadata=conversion(serialization=a_to_int))


VALUES = {
    "h": H([A(1), A(2)], A(3), [[A(4)], []], [A(5)], [A(6)]),
    "conv_list": [A(1), A(2)],
    "conv_opt": A(3),
    "conv_nested": [A(1), None],
    "conv_lists": [[A(1)], [A(2), A(3)]],
    "plain_list": [A(8)],
    "hs": [H([A(9)])],
}


def h() -> H:
    return VALUES["h"]


def conv_list() -> List[A]:
    return VALUES["conv_list"]


def conv_opt() -> Optional[A]:
    return VALUES["conv_opt"]


def conv_nested() -> List[Optional[A]]:
    return VALUES["conv_nested"]


def conv_lists() -> List[List[A]]:
    return VALUES["conv_lists"]


def plain_list() -> List[A]:
    return VALUES["plain_list"]


def hs() -> List[H]:
    return VALUES["hs"]


RETURNS = {"h": H, "conv_list": List[A], "conv_opt": Optional[A], "conv_nested": List[Optional[A]], "conv_lists": List[List[A]], "plain_list": List[A], "hs": List[H]}
CONVS = {"conv_list": a_to_int, "conv_opt": a_to_str, "conv_nested": a_to_int, "conv_lists": a_to_str}
SCHEMA = graphql_schema(query=[h, hs, plain_list] + [Query(globals()[n], conversion=c) for n, c in CONVS.items()])
"""

CONV_EXPECTED = {  # GraphQL type strings: the conversion reaches through lists and Optional, down to the elements
    ("Query", "convList"): "[Int!]!", ("Query", "convOpt"): "String", ("Query", "convNested"): "[Int]!", ("Query", "convLists"): "[[String!]!]!",
    ("Query", "plainList"): "[A!]!", ("Query", "h"): "H!", ("Query", "hs"): "[H!]!",
    ("H", "xs"): "[Int!]!", ("H", "o"): "String", ("H", "xss"): "[[Int!]!]!", ("H", "ox"): "[String!]", ("H", "plain"): "[A!]!", ("H", "one"): "Int!",
}


def conversion_workload(env):
    """dynamic (operation-level) and field-level serialization conversions aimed at the elements of lists / the content of Optional:
    the schema shows the converted type where execution applies the conversion; executing a query selecting every field returns
    serialize(T, v) with the same conversions"""
    import sys
    import types

    import graphql
    from apischema import serialize
    from apischema.utils import to_camel_case

    mod = types.ModuleType(f"vfc19conv_{env.shard}")
    sys.modules[mod.__name__] = mod
    try:
        harness.reset_all()
        try:
            exec(compile(CONV_SRC, f"<{mod.__name__}>", "exec"), mod.__dict__)
        except Exception as e:
            env.violation({"kind": "schema-build-raises", "family": "element-conversions", "exc": type(e).__name__}, {"program": CONV_SRC, "message": str(e)[:300]})
            return
        schema = mod.SCHEMA
        wit = {"program": CONV_SRC}
        for (tname, fname), want in CONV_EXPECTED.items():
            env.count("element_conversion_type_checks")
            env.case("element-conversions", "type", tname, fname)
            t = schema.type_map.get(tname)
            f = t.fields.get(fname) if t is not None else None
            got = str(f.type) if f is not None else None
            if got != want:
                env.violation({"kind": "type-mismatch", "family": "element-conversions", "view": "operation" if tname == "Query" else "field",
                               "shape": want.replace("Int", "X").replace("String", "X")}, {**wit, "type": tname, "field": fname, "expected": want, "observed": got})
        hsel = "{ xs o xss ox plain { i } one }"
        sels = {"h": hsel, "hs": hsel, "plain_list": "{ i }"}
        for name, ret in mod.RETURNS.items():
            env.count("element_conversion_executions")
            env.case("element-conversions", "exec", name)
            q = "{ " + to_camel_case(name) + " " + sels.get(name, "") + " }"
            res = graphql.graphql_sync(schema, q)
            kw = {"conversion": mod.CONVS[name]} if name in mod.CONVS else {}
            exp = serialize(ret, mod.VALUES[name], aliaser=to_camel_case, **kw)
            if res.errors or res.data != {to_camel_case(name): exp}:
                env.violation({"kind": "exec-errors" if res.errors else "data-mismatch", "family": "element-conversions", "operation": name},
                              {**wit, "query": q, "errors": [str(e)[:200] for e in (res.errors or [])][:3], "data": res.data, "expected": exp})
    finally:
        sys.modules.pop(mod.__name__, None)
        harness.reset_all()


def run(env):
    harness.tag_errors(False)
    if env.shard == 0:
        conversion_workload(env)
    n = env.n(1000, 30000)
    for j in range(n):
        if env.out_of_time():
            env.notes.append("time cap reached")
            break
        prog_seed = h64("c19", env.seed, env.shard, env.nshards, j) % (2**48)
        r = one_program(env, prog_seed)
        if j < 2 and r.schema is not None:
            env.sample({"settings": r.P["settings"], "program": r.m.source[-1500:]})


def finish_coverage(cov, counters, tier):
    cov["exhaustive"] = False
    cov["monitors"] = {k: counters.get(k, 0) for k in REQUIRED}


def replay(env, rep):
    w = rep["witness"]
    env.tier = w.get("tier", "quick")
    if "prog_seed" not in w:  # witness of the fixed element-conversions family
        conversion_workload(env)
    else:
        one_program(env, w["prog_seed"])
    want = json.dumps(rep["features"], sort_keys=True, default=str)
    env.violations = [v for v in env.violations if json.dumps(v["features"], sort_keys=True, default=str) == want][:1]
