"""One shard of one check:  python -m vf.worker <prop> <tier|replay> <seed> <shard> <nshards> <out|replayfile>"""
import faulthandler
import importlib
import json
import sys


def main():
    prop, tier, seed, shard, nshards, out = sys.argv[1:7]
    seed, shard, nshards = int(seed), int(shard), int(nshards)
    from vf import bootstrap

    mod = importlib.import_module(f"vf.checks.{prop.lower()}")
    bootstrap.init(need_jsonschema=getattr(mod, "NEED_JSONSCHEMA", False))
    from vf.core import Env

    sys.setrecursionlimit(getattr(mod, "RECURSION_LIMIT", 3000))
    if tier == "replay":
        with open(out) as f:
            rep = json.load(f)
        env = Env(prop, "quick", seed, 0, 1, 10**9)
        mod.replay(env, rep)
        for v in env.violations:
            print("REPRODUCED", json.dumps(v["features"], sort_keys=True, default=str))
        print(f"replay: {len(env.violations)} violation(s) reproduced")
        return 1 if env.violations else 0
    cap = mod.TIME_CAP[tier]
    faulthandler.dump_traceback_later(cap * 3 + 60, exit=True)
    env = Env(prop, tier, seed, shard, nshards, cap)
    mod.run(env)
    env.dump(out)
    return 0


if __name__ == "__main__":
    sys.exit(main())
