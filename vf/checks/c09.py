"""C09 — cached methods never go stale across configuration histories.

A *history* is a list of JSON steps over the fixed pool module vf/c09_pool.py: configuration operations (settings
assignments, registrations, removals -- the alphabet `pool.OPS`) interleaved with observations (deserialize / serialize /
deserialization_schema / serialization_schema with no explicit option, so the global configuration decides).
Every history runs in its own process forked from a pristine interpreter (pool imported, nothing observed) and the check
never resets apischema's caches between the steps of a history.  For the observation at position i:

  hot    what the history process returns;
  reset  oracle 1: a child forked at that very moment calls apischema.cache.reset() and repeats the observation
         (the history process itself goes on un-reset);
  cold   oracle 2: a fresh interpreter (python -m vf.c09_cold, batched: one forked child per query) replays only the
         configuration operations of h[:i], in order, with the same arguments, then observes.

hot == reset == cold is demanded, compared through a canonical rendering (class names, attribute dicts, errors lists,
schemas as ordered JSON, exception class + message).  Only public calls are used and no precomputed method is ever kept.
"""
import hashlib
import json
import os
import random
import subprocess
import sys

from vf.c09_cold import fork_call
from vf.core import h64

PROP = "C09"
SHARDS = {"quick": 16, "thorough": 16}
TIME_CAP = {"quick": 40, "thorough": 780}
REQUIRED = ["histories", "histories_S0", "histories_S1", "histories_S2", "histories_S3", "histories_S4", "histories_long", "long_history_steps",
            "observations_hot", "reset_oracle_evals", "cold_oracle_evals", "cold_queries_sent", "cold_fresh_interpreter_crosschecks",
            "ops_applied", "effective_op_observed", "distinct_ops_exercised"]
RULE = ("history = JSON steps over the pool module vf/c09_pool.py (operation alphabet: every settings attribute of the statement with >= 2 values, every "
        "registration / removal API with add, replace and remove variants -- counts in coverage.pool; observations: deserialize of valid and invalid data, "
        "serialize, both schemas on ~55 types each sensitive to one registry). Shapes: S0 `X1;X2`, S1 `op;X`, S2 `X1;op;X2`, S3 `X1;op1;op2;X2`, "
        "S4 `op1;X1;op2;X2` with X over the observations of the types the last operation can affect and op pairs over operations sharing a type; "
        "long = 50-200 random steps over 2-4 type families. A case = the steps up to and including one observation; non-trivial when at least one "
        "operation precedes the observation; distinct by hash of the steps.")
ASSUMPTIONS = ["the cold start is the state right after importing apischema and the pool module in a fresh interpreter (the pool registers a few conversions / "
               "object fields at import through the public API and never observes)",
               "operations are replayed by name with the same arguments in the same order; registrations apischema cannot undo are never undone",
               "canonical rendering ignores memory addresses in exception messages and the identity of str subclasses in schemas; dict order is compared",
               "a precomputed deserialization_method / serialization_method is never kept across steps (the statement lets those keep the former behaviour)",
               "PYTHONHASHSEED is the same (0) in the history process and in the cold interpreter"]

pool = None  # set by _init()


def _init():
    global pool
    if pool is None:
        from vf import c09_pool

        pool = c09_pool
    return pool


def J(x):
    return json.dumps(x, sort_keys=True, ensure_ascii=True)


def is_op(s):
    return "op" in s


def ops_of(steps):
    return [s for s in steps if "op" in s]


def strip(op):
    """operation without its selection hint"""
    return {k: v for k, v in op.items() if k != "types"}


# ----------------------------------------------------------------------------------------------------------------------
# executing histories (always inside a child forked from the pristine worker)
# ----------------------------------------------------------------------------------------------------------------------
def _after_reset(obs):
    pool.cache_reset()
    return pool.observe(obs)


def run_history(steps, reset_oracle=True):
    """hot run of one history.  The reset oracle runs in a forked child so that the history itself is never reset --
    except for the very last step, after which nothing remains to be protected (done in-process, saves a fork)."""
    recs, op_errors = [], []
    last = len(steps) - 1
    for i, s in enumerate(steps):
        if is_op(s):
            e = pool.apply_safe(s)
            if e:
                op_errors.append([i, e])
        else:
            hot = pool.observe(s)
            rst = None
            if reset_oracle and recs:  # nothing can be stale before the first observation of the process: cold oracle only
                rst = _after_reset(s) if i == last else fork_call(lambda s=s: _after_reset(s), 30)
            recs.append([i, hot, rst])
    return {"recs": recs, "op_errors": op_errors}


def cold_proxy(ops, obs):
    """pristine fork of the worker: configuration only, then the observation (used for attribution, not for verdicts)"""
    def f():
        for op in ops:
            pool.apply_safe(op)
        return pool.observe(obs)

    return fork_call(f, 30)


class Cold:
    """client of the cold oracle: batches queries into fresh interpreters, remembers digests of the answers"""

    def __init__(self, env):
        self.env = env
        self.digests = {}

    @staticmethod
    def key(ops, obs):
        return hashlib.blake2b((J([strip(o) for o in ops]) + "|" + J(obs)).encode(), digest_size=12).digest()

    @staticmethod
    def digest(res):
        return hashlib.blake2b(res.encode(), digest_size=12).digest() if isinstance(res, str) else None

    def call(self, queries, mode="fork"):
        env = dict(os.environ)
        req = json.dumps({"queries": [{"ops": [strip(o) for o in ops], "obs": obs} for ops, obs in queries], "mode": mode})
        try:
            r = subprocess.run([sys.executable, "-B", "-m", "vf.c09_cold"], input=req, capture_output=True, text=True, env=env,
                               timeout=120 + 0.2 * len(queries), cwd=os.path.dirname(os.path.dirname(os.path.dirname(os.path.abspath(__file__)))))
            out = json.loads(r.stdout)
        except (subprocess.TimeoutExpired, ValueError) as e:
            self.env.inconclusive.append(f"cold oracle interpreter failed: {type(e).__name__}")
            return [None] * len(queries)
        self.env.count("cold_interpreters_started")
        self.env.count("cold_queries_sent", len(queries))
        self.env.count("cold_op_errors", sum(len(e) for e in out["op_errors"]))
        return out["results"]

    def ensure(self, queries):
        todo, seen = [], set()
        for ops, obs in queries:
            k = self.key(ops, obs)
            if k not in self.digests and k not in seen:
                seen.add(k)
                todo.append((k, ops, obs))
        for start in range(0, len(todo), 3000):
            part = todo[start:start + 3000]
            res = self.call([(ops, obs) for _, ops, obs in part])
            for (k, _, _), r in zip(part, res):
                if isinstance(r, str):
                    self.digests[k] = self.digest(r)
                else:
                    self.env.count("cold_query_failed")
                    self.digests[k] = None
        if len(self.digests) > 400000:
            self.digests.clear()

    def get_digest(self, ops, obs):
        return self.digests.get(self.key(ops, obs), None)

    def text(self, ops, obs):
        r = self.call([(ops, obs)])[0]
        return r if isinstance(r, str) else None


# ----------------------------------------------------------------------------------------------------------------------
# history spaces
# ----------------------------------------------------------------------------------------------------------------------
def cands(op):
    """observations of the types an operation can affect, interleaved over the types (so that a prefix is diverse)"""
    per = [pool.observations_of(t) for t in op["types"]]
    return [l[k] for k in range(max(map(len, per), default=0)) for l in per if k < len(l)]


def shared(a, b):
    return [t for t in b["types"] if t in a["types"]]


def balanced_assignment(weights, nshards):
    """longest-processing-time-first: item index -> shard (deterministic)"""
    load = [0] * nshards
    out = {}
    for i in sorted(range(len(weights)), key=lambda i: (-weights[i], i)):
        s = min(range(nshards), key=lambda s: (load[s], s))
        out[i] = s
        load[s] += weights[i]
    return out


def short_histories(env):
    """the enumerated short histories of this shard (deterministic given VERIF_SEED; complete in the thorough tier).
    quick keeps every S2 with X1 == X2 and, for every operation pair of a group and every shared type, two S4 and one S3;
    the rest is a seeded sample."""
    P = pool
    quick = env.quick()
    ops = P.OPS
    obs_by_type = {t: P.observations_of(t) for t in P.TYPES}
    # --- S0: two observations, no operation (same type or permutation twins)
    tnames = list(P.TYPES)
    for ti, t in enumerate(tnames):
        if ti % env.nshards != env.shard:
            continue
        rng = random.Random(h64("c09-s0", env.seed, ti))
        for x1 in obs_by_type[t]:
            for x2 in obs_by_type[t]:
                if not quick or rng.random() < 0.2:
                    yield "S0", [x1, x2]
            for x2 in obs_by_type.get(P.TWINS.get(t), []):
                yield "S0", [x1, x2]
    # --- S1..S4, partitioned by the first operation so that histories sharing a prefix share a cold-oracle cache
    weights = []  # expected number of histories whose first operation is a (mirrors the generator below)
    for a in ops:
        n = len(cands(a))
        per_type = sum(len(obs_by_type[t]) ** 2 for t in a["types"])
        w = 1.2 * n + 0.01 * n * n if quick else n + (n * n if n <= 30 else per_type)
        for b in ops:
            same = P.op_group(a) == P.op_group(b)
            for t in shared(a, b):
                k = len(obs_by_type[t])
                if quick:
                    w += 3 if same else 0.16
                else:
                    w += k + (k + k * (k - 1) if same else 0.3 * k)
        weights.append(w)
    assign = balanced_assignment(weights, env.nshards)
    for ia, a in enumerate(ops):
        if assign[ia] != env.shard:
            continue
        rng = random.Random(h64("c09-short", env.seed, ia))
        ca = cands(a)
        for x in ca:
            if not quick or rng.random() < 0.2:
                yield "S1", [a, x]
        big = len(ca) > 30  # global settings: cross pairs only within a type
        for x1 in ca:
            for x2 in ca:
                if x1 == x2 or (rng.random() < 0.01 if quick else (not big or x1["type"] == x2["type"])):
                    yield "S2", [x1, a, x2]
        for b in ops:
            sh = shared(a, b)
            if not sh:
                continue
            same_group = P.op_group(a) == P.op_group(b)
            for t in sh:
                xs = obs_by_type[t]
                if not quick:
                    for x in xs:
                        yield "S4", [a, x, b, x]
                        if same_group or rng.random() < 0.3:
                            yield "S3", [x, a, b, x]
                    if same_group:
                        for x1 in xs:
                            for x2 in xs:
                                if x1 != x2:
                                    yield "S4", [a, x1, b, x2]
                elif same_group:
                    for x in rng.sample(xs, min(2, len(xs))):
                        yield "S4", [a, x, b, x]
                    x = rng.choice(xs)
                    yield "S3", [x, a, b, x]
                else:
                    if rng.random() < 0.12:
                        x = rng.choice(xs)
                        yield "S4", [a, x, b, x]
                    if rng.random() < 0.04:
                        x = rng.choice(xs)
                        yield "S3", [x, a, b, x]


FAMILIES = [
    ["Conv", "ConvSub", "ConvHolder", "AnyT"], ["ConvDC"], ["PreConv", "PreConvHolder"], ["Obj", "ObjHolder", "ObjDC", "PreObj"], ["Rec", "RecHolder"],
    ["Named", "NamedHolder", "XRef"], ["PetU", "Cat"], ["LitU", "LitA"], ["Sch", "SchStr", "SchDC", "SchHolder"], ["Aliased", "AliasedHolder"], ["Ordered", "OrderedHolder"],
    ["Validated", "ValidatedHolder"], ["DepReq", "DepReqHolder"], ["Base", "UnionSub", "BaseHolder", "SubA"], ["Meth", "MethHolder"],
    ["Cons", "ConsInt"], ["Defaulted", "FS"], ["Raw", "RawHolder"], ["Dof", "DofHolder"], ["U_AB", "U_BA"], ["Int", "ListInt", "OptInt", "DictAny"],
]


def long_history(rng):
    P = pool
    fams = rng.sample(FAMILIES, rng.randint(2, 4))
    types = [t for f in fams for t in f]
    tset = set(types)
    groups = {}
    for op in P.OPS:
        if tset & set(op["types"]):
            groups.setdefault(P.op_group(op), []).append(op)
    gnames = sorted(groups)
    obs = [o for t in types for o in P.observations_of(t)]
    n = rng.randint(50, 200)
    p_op = rng.choice([0.25, 0.4, 0.55])
    steps, last_op = [], None
    for _ in range(n):
        if rng.random() < p_op:
            last_op = rng.choice(groups[rng.choice(gnames)])
            steps.append(last_op)
        else:
            pick = obs
            if last_op is not None and rng.random() < 0.6:
                near = [o for o in obs if o["type"] in last_op["types"]]
                pick = near or obs
            steps.append(rng.choice(pick))
    return steps


# ----------------------------------------------------------------------------------------------------------------------
# judging, attribution
# ----------------------------------------------------------------------------------------------------------------------
def obs_kind(x):
    return x["obs"]


def trial(steps, j, x, prime):
    """`config of steps[:j]` ; prime... ; steps[j] ; x   (hot)   against   `config of steps[:j+1]` ; x   (pristine fork)"""
    prefix = ops_of(steps[:j])
    op = steps[j]

    def hot():
        for o in prefix:
            pool.apply_safe(o)
        for p in prime:
            pool.observe(p)
        pool.apply_safe(op)
        return pool.observe(x)

    h = fork_call(hot, 30)
    c = cold_proxy(prefix + [op], x)
    return isinstance(h, str) and isinstance(c, str) and h != c


def attribute(env, steps, i, hot, good_before):
    """mechanism-level explanation of a mismatch at observation i -> (features, extra witness fields)"""
    x = steps[i]
    prefix_ops = ops_of(steps[:i])
    twin = pool.TWINS.get(x["type"])
    if twin and any(not is_op(s) and s["type"] == twin for s in steps[:i]):
        xt = dict(x, type=twin)
        if cold_proxy(prefix_ops, xt) == hot:  # explanatory model of F21: the result is the one of the permuted union
            return {"kind": "union-order-conflation", "obs": obs_kind(x)}, {"explained_by": "hot result equals the cold result of the typing-equal union " + twin}
    if not prefix_ops:
        return {"kind": "observation-order-dependence", "obs": obs_kind(x)}, {}
    # candidate culprits: operations since the last position where this very observation was still right, latest first
    start = good_before.get(J(x), -1)
    cand = [j for j in range(i - 1, start, -1) if is_op(steps[j])][:40]
    for prime_mode in ("same", "all"):
        for j in cand:
            if prime_mode == "same":
                prime = [x]
            else:
                prime, seenp = [], set()
                for s in steps[:j]:
                    if not is_op(s) and J(s) not in seenp:
                        seenp.add(J(s))
                        prime.append(s)
                prime = prime[-30:] + [x]
            env.count("attribution_trials")
            if trial(steps, j, x, prime):
                op = steps[j]
                minimal = ops_of(steps[:j]) + prime + [op, x]
                if trial([op], 0, x, prime if prime_mode == "same" else [x]):
                    minimal = [x, op, x]
                return ({"kind": "stale", "op": pool.op_kind(op), "obs": obs_kind(x)},
                        {"culprit": strip(op), "minimal_history": [strip(s) if is_op(s) else s for s in minimal], "primed_by": prime_mode})
    return {"kind": "mismatch-unattributed", "obs": obs_kind(x)}, {}


class Judge:
    def __init__(self, env, cold):
        self.env, self.cold = env, cold
        self.max_attr_per_history = 8
        self.found = []

    def emit(self):
        """report the mismatches found so far (one cold interpreter fetches the full cold renderings for the witnesses)"""
        need = [q for _, _, q in self.found if q is not None][:60]
        texts = self.cold.call(need) if need else []
        k = 0
        for feats, wit, q in self.found:
            if q is not None and k < len(texts):
                wit["cold"] = (texts[k] or "")[:1500] if isinstance(texts[k], str) else None
                k += 1
            self.env.violation(feats, wit)
        self.found = []

    def judge(self, shape, steps, out):
        env = self.env
        good_before, last_seen, attributed = {}, {}, 0
        opkinds_between = []
        for i, hot, rst in out["recs"]:
            x = steps[i]
            prefix_ops = ops_of(steps[:i])
            cd = self.cold.get_digest(prefix_ops, x)
            env.case(shape if shape != "long" else "L", J([strip(s) if is_op(s) else s for s in steps[:i + 1]]), nontrivial=bool(prefix_ops))
            env.count("observations_hot")
            env.count("obs:" + obs_kind(x))
            if hot.startswith('{"ok"'):
                env.count("outcome_ok")
            elif hot.startswith('{"verr"'):
                env.count("outcome_validation_error")
            else:
                env.count("outcome_exception")
            if rst is not None:
                if not isinstance(rst, str):
                    env.count("reset_oracle_failed")
                    rst = None
                else:
                    env.count("reset_oracle_evals")
            if cd is None:
                env.count("cold_oracle_unavailable")
            else:
                env.count("cold_oracle_evals")
            # coverage matrix: operations since the previous occurrence of the same observation (or all, if none)
            kx = J(x)
            since = last_seen.get(kx, (-1, None))
            kinds = {pool.op_kind(s) for s in steps[since[0] + 1:i] if is_op(s)}
            for k in kinds:
                env.count(f"cov|{k}|{obs_kind(x)}")
            if since[1] is not None and kinds:
                env.count("primed_then_changed_then_observed")
                if since[1] != hot:
                    env.count("effective_op_observed")
                    for k in kinds:
                        env.count(f"eff|{k}|{obs_kind(x)}")
            last_seen[kx] = (i, hot)
            bad_reset = rst is not None and rst != hot
            bad_cold = cd is not None and Cold.digest(hot) != cd
            bad_reset_cold = rst is not None and cd is not None and Cold.digest(rst) != cd
            if not (bad_reset or bad_cold or bad_reset_cold):
                good_before[kx] = i
                continue
            env.count("mismatches")
            if attributed >= self.max_attr_per_history:
                env.count("mismatches_beyond_attribution_budget_of_history")
                continue
            attributed += 1
            feats, extra = attribute(env, steps, i, hot, good_before)
            feats["oracle"] = "reset" if bad_reset else "cold" if bad_cold else "reset-vs-cold"
            wit = {"shape": shape, "history": [strip(s) if is_op(s) else s for s in steps[:i + 1]], "position": i, "observation": x,
                   "hot": hot[:1500], "after_reset": (rst or "")[:1500], "cold": None, **extra}
            self.found.append((feats, wit, (prefix_ops, x) if cd is not None else None))
        env.count("op_errors_hot", len(out["op_errors"]))


# ----------------------------------------------------------------------------------------------------------------------
# diagnostics (evidence only)
# ----------------------------------------------------------------------------------------------------------------------
def reset_call_diagnostic(env):
    """H2: which mutation paths call apischema.cache.reset() -- by wrapping it in a throw-away child (never a verdict)"""
    P = pool

    def probe(ctx, op):
        import apischema.cache as c

        for o in ctx:
            P.apply_safe(o)
        if not hasattr(c, "reset"):
            return None
        n = [0]
        orig = c.reset

        def counting():
            n[0] += 1
            return orig()

        c.reset = counting
        P.apply_safe(op)
        return n[0]

    by_group = {}
    for op in P.OPS:
        by_group.setdefault(P.op_group(op), []).append(op)
    for g, members in by_group.items():
        for b in members:
            for ctx in [[]] + [[a] for a in members if a is not b][:2]:
                r = fork_call(lambda ctx=ctx, b=b: probe(ctx, b), 20)
                if isinstance(r, int):
                    env.count(f"diag_reset|{P.op_kind(b)}|{'called' if r else 'not_called'}")


# ----------------------------------------------------------------------------------------------------------------------
def run(env):
    P = _init()
    cold = Cold(env)
    judge = Judge(env, cold)
    pending = []
    exercised = set()

    def flush():
        queries = []
        for shape, steps, out in pending:
            for i, hot, rst in out["recs"]:
                queries.append((ops_of(steps[:i]), steps[i]))
        cold.ensure(queries)
        for shape, steps, out in pending:
            judge.judge(shape, steps, out)
        judge.emit()
        pending.clear()

    def execute(shape, steps):
        out = fork_call(lambda: run_history(steps), 300)
        if not isinstance(out, dict) or "recs" not in out:
            env.count("history_process_failed")
            env.notes.append(f"history process failed: {str(out)[:200]}")
            return
        env.count("histories")
        env.count("histories_" + shape)
        n_ops = sum(1 for s in steps if is_op(s))
        env.count("ops_applied", n_ops)
        for s in steps:
            if is_op(s):
                exercised.add(J(strip(s)))
        if shape == "long":
            env.count("long_history_steps", len(steps))
        if env.shard == 0:
            env.sample({"shape": shape, "steps": [strip(s) if is_op(s) else s for s in steps[:12]], "n_steps": len(steps)}, cap=5)
        pending.append((shape, steps, out))
        if len(pending) >= ((250 if env.quick() else 600) if shape != "long" else 16):
            flush()

    if env.shard == 0:
        reset_call_diagnostic(env)
    # the batched cold oracle against truly fresh interpreters (one process per query, no fork at all)
    n_x = (2 if env.shard < 6 else 0) if env.quick() else 6
    xrng = random.Random(h64("c09-x", env.seed, env.shard))
    keys = []
    for _ in range(n_x):
        steps = long_history(xrng)[: xrng.randint(5, 40)]
        keys.append((ops_of(steps), xrng.choice(P.ALL_OBS)))
    batched = cold.call(keys) if keys else []
    for (ops, x), b in zip(keys, batched):
        single = cold.call([(ops, x)], mode="single")[0]
        env.count("cold_fresh_interpreter_crosschecks")
        if single != b:
            env.inconclusive.append("batched cold oracle disagrees with a one-query fresh interpreter: " + J(x))

    def priority(item):
        shape, steps = item
        # second-level caches (the recursion analysis behind the method caches) are only visible when an operation flips
        # the analysed property of an already used type: these few histories first, whatever the time cap (seed S09b)
        if shape == "S4" and steps[1] == steps[3] and all(s.get("target") == "Rec" for s in (steps[0], steps[2])):
            return -1
        if shape == "S4" and steps[1] == steps[3] and steps[0].get("op") == "cache_set_size" and steps[2].get("op") != "cache_set_size":
            return -1  # caches re-created by set_size must still be invalidated by the next operation
        if shape == "S2" and steps[0] == steps[2]:
            return 0
        if shape == "S4" and P.op_group(steps[0]) == P.op_group(steps[2]) and steps[1] == steps[3]:
            return 0
        if shape == "S0":
            return 0 if steps[0]["type"] != steps[1]["type"] else 3
        if shape == "S3" and P.op_group(steps[1]) == P.op_group(steps[2]):
            return 1
        return 2

    shorts = list(short_histories(env))
    head, taken, rank, seen_rank = [], {}, [], {}
    for i, (shape, steps) in enumerate(shorts):
        if taken.get(shape, 0) < 6:
            taken[shape] = taken.get(shape, 0) + 1
            head.append(i)
        first_op = next((J(strip(s)) for s in steps if is_op(s)), "")
        k = (priority((shape, steps)), first_op)
        rank.append(seen_rank.get(k, 0))  # round-robin over the operations inside a priority class:
        seen_rank[k] = rank[-1] + 1       # a time cap then thins every operation instead of dropping the last ones
    in_head = set(head)
    order_ = sorted((i for i in range(len(shorts)) if i not in in_head), key=lambda i: (priority(shorts[i]), rank[i], i))

    # 1. a few histories of every shape (so that a time cap never starves a shape)
    for i in head:
        execute(*shorts[i])
    flush()
    # 2. long random histories (count-based budget; at most 40% of the time cap)
    import time as _time
    for k_long in range(env.n(48, 1600)):
        if k_long > 0 and _time.time() - env.t0 > 0.4 * env.time_cap:  # at least one per shard, whatever the load
            env.count("long_histories_stopped_by_time_share")
            break
        execute("long", long_history(env.rng))
    flush()
    # 3. the enumerated short histories, most informative first
    for i in order_:
        if env.out_of_time():
            env.count("stopped_by_time_cap")
            env.count("short_histories_not_run", len(order_) - order_.index(i))
            break
        execute(*shorts[i])
    flush()
    env.count("distinct_ops_exercised", len(exercised))
    if env.shard == 0:
        env.count("pool|operations", len(P.OPS))
        env.count("pool|operation_groups", len({P.op_group(o) for o in P.OPS}))
        env.count("pool|operation_kinds", len({P.op_kind(o) for o in P.OPS}))
        env.count("pool|types", len(P.TYPES))
        env.count("pool|observations", len(P.ALL_OBS))
    for k in exercised:
        env.count("opseen|" + hashlib.blake2b(k.encode(), digest_size=6).hexdigest())


def finish_coverage(cov, counters, tier):
    c = cov["counters"]
    matrix = {}
    for k, v in list(c.items()):
        if k.startswith(("cov|", "eff|")):
            tag, op, obs = k.split("|")
            cell = matrix.setdefault(op, {}).setdefault(obs, {"exercised": 0, "result_changed": 0})
            cell["exercised" if tag == "cov" else "result_changed"] += v
            del c[k]
    diag = {}
    for k, v in list(c.items()):
        if k.startswith("diag_reset|"):
            _, op, what = k.split("|")
            diag.setdefault(op, {"called": 0, "not_called": 0})[what] += v
            del c[k]
    cov["pool"] = {k.split("|")[1]: c.pop(k) for k in list(c) if k.startswith("pool|")}
    seen = [k for k in c if k.startswith("opseen|")]
    for k in seen:
        del c[k]
    c["distinct_ops_exercised"] = len(seen)
    cov["op_x_observation_matrix"] = {op: matrix[op] for op in sorted(matrix)}
    cov["never_changed_any_result"] = sorted(f"{op} x {obs}" for op, row in matrix.items() for obs, cell in row.items() if cell["result_changed"] == 0)
    cov["diagnostic_reset_calls_per_operation_kind"] = diag
    cov["exhaustive"] = tier == "thorough" and not c.get("stopped_by_time_cap")
    cov["exhaustive_subspace"] = ("all S0/S1/S2/S3/S4 histories over the sensitive (operation, observation) pairs of the pool" if tier == "thorough"
                                  else "all S0, S1, S2 with X1 == X2, S4 within a group; seeded samples of the rest")


def replay(env, rep):
    _init()
    w = rep["witness"]
    steps = w.get("minimal_history") or w["history"]
    cold = Cold(env)
    judge = Judge(env, cold)
    for name, hist in (("minimal_history", w.get("minimal_history")), ("history", w["history"])):
        if not hist:
            continue
        out = fork_call(lambda hist=hist: run_history(hist), 300)
        cold.ensure([(ops_of(hist[:i]), hist[i]) for i, _, _ in out["recs"]])
        before = len(env.violations)
        judge.judge("replay", hist, out)
        judge.emit()
        print(f"replay of {name} ({len(hist)} steps): {len(env.violations) - before} mismatching observation(s)")
