"""C20 — concurrent first use from several threads is safe.

Three workloads on FRESH type clusters (vf/c20_shapes.py), all inside this worker process:
  (a) stress: N in {2,4,8,16} threads, 1 us switch interval, a barrier before every cluster, threads enter the same
      cluster through different members / operations;
  (b) systematic schedules: two threads, A parked at its k-th hook event (sys.monitoring LINE events on recursion.py,
      cache.py, RecMethod, LazyConversion, the method factories), B runs to completion or to its j-th event;
  (c) random yields (time.sleep(0)) at the same hook points, seeded per thread.
Oracles: each concurrent outcome == outcome of the same call on a twin copy of the cluster used sequentially;
at quiescence the recursion dictionaries are compared with ground truth known by construction; then an eviction
follow-up (>128 filler types, then reuse + new embedding types) must still equal the sequential baseline.
"""
import dataclasses
import json
import random
import re
import sys
import threading
import time
from typing import Literal

from vf import c20_shapes as S
from vf.c20_mon import Injector, Monitor, Policy, Schedule
from vf.core import h64

PROP = "C20"
SHARDS = {"quick": 8, "thorough": 16}
TIME_CAP = {"quick": 38, "thorough": 720}
RECURSION_LIMIT = 800
REQUIRED = ["threads_started", "concurrent_calls", "overlap_first_use_calls", "overlap_in_analysis", "monitored_cache_writes",
            "hook_events", "schedules_executed", "schedules_parked", "injected_yields", "quiescence_truth_checks",
            "followups", "followup_recursion_dict_reads", "followup_calls", "stress_clusters", "yield_clusters"]
RULE = ("fresh clusters of 17 fixed shapes (plain, generic, generic-recursive, self-, mutually-, nested-recursive, tail+cycle, union/tuple "
        "recursion, registered / lazily registered / recursive / field-level / LazyConversion conversions, class validators) + seeded random reference digraphs; "
        "a case = one concurrent public call (workload, shape, op, entry, datum, threads | schedule (k, j)) compared with its sequential twin; "
        "non-trivial = the cluster was used by >= 2 threads; distinct by hash.  Distinct cache-write orders and schedules are counted separately.")
ASSUMPTIONS = ["the twin oracle needs the *sequential* result to be independent of the order of first uses: shapes whose reference cycles overlap "
               "(fixed shape 'nested', one third of the random shapes) are only used after a run-time brute force over first-use orders "
               "(all orders of the entry points, and every rotation with schema generation first) found no dependence; otherwise the "
               "shape is a counted abstention (before commit 05c99a6 apischema's sequential analysis was order dependent on ~8 % of them)",
               "'every interleaving' is restated as: the interleavings executed (random preemption at 1 us, every single park point k of thread A x "
               "{B to completion, B to its j-th hook}, seeded random yields); evidence lists how many",
               "the sequential semantics of a call is given by a structurally identical twin cluster used by one thread (order-independence of the "
               "sequential result is itself checked on a sample; disagreement => abstention 'twin_order_dependent')",
               "configuration changes (registering conversions, settings) happen before the threads start; they are not part of the statement",
               "stall detection (a thread blocked on a lock held by the parked one) only alters the schedule; a hang (> 120 s) is inconclusive, never a verdict",
               "a wrong recursion-dictionary entry that the eviction follow-up cannot turn into a different result is reported as 'suspect' only"]

OPS = ["deserialize", "serialize", "dschema", "sschema"]

_seq = [0]


def _sfx():
    _seq[0] += 1
    return f"z{_seq[0]}q"


# ---------------------------------------------------------------------------------------------- calls and outcomes
def canon(v, depth=0):
    if depth > 60:
        return "<deep>"
    if dataclasses.is_dataclass(v) and not isinstance(v, type):
        return {"$c": type(v).__name__, "f": {f.name: canon(getattr(v, f.name), depth + 1) for f in dataclasses.fields(v)}}
    if isinstance(v, (list, tuple)):
        return {"$" + type(v).__name__: [canon(x, depth + 1) for x in v]}
    if isinstance(v, dict):
        return {"$dict": [[canon(k, depth + 1), canon(x, depth + 1)] for k, x in v.items()]}
    if v is None or type(v) in (bool, int, float, str):
        return [type(v).__name__, v]
    if hasattr(v, "v") and type(v).__module__.startswith("vfc20_"):
        return {"$o": type(v).__name__, "v": canon(v.v, depth + 1)}
    return {"$repr": type(v).__name__}


def perform(cl, values, call):
    """one public call -> normalised outcome string (suffix-free)"""
    import apischema
    from apischema.json_schema import deserialization_schema, serialization_schema

    op, ei, di = call
    tp = cl.types[ei]
    try:
        # every third datum goes through a *fresh* default_conversion callable equivalent to the default one: the recursion
        # analysis is memoised per default_conversion, so such calls are first uses again, under another callable
        kw = {}
        if di % 3 == 1 and op in ("deserialize", "serialize"):
            from apischema.conversions.converters import default_deserialization, default_serialization
            base = default_deserialization if op == "deserialize" else default_serialization
            kw["default_conversion"] = lambda t, _base=base: _base(t)
        if op == "deserialize":
            data = cl.data[ei]
            d = (data["valid"] + data["bad"])[di]
            res = ["ok", canon(apischema.deserialize(tp, d, **kw))]
        elif op == "serialize":
            res = ["ok", apischema.serialize(tp, values[ei][di], **kw)]
        elif op == "serialize_any":  # typeless: goes through the shared Any method, which selects a method per runtime class
            res = ["ok", apischema.serialize(values[ei][di])]
        elif op == "serialize_conv":
            res = ["ok", apischema.serialize(tp, values[ei][di], conversion=cl.conv)]
        elif op == "dschema":
            res = ["ok", deserialization_schema(tp)]
        elif op == "sschema":
            res = ["ok", serialization_schema(tp)]
        else:
            raise ValueError(op)
    except apischema.ValidationError as e:
        try:
            res = ["verr", e.errors]
        except Exception as e2:
            res = ["exc", "errors:" + type(e2).__name__]
    except RecursionError:
        res = ["exc", "RecursionError"]
    except Exception as e:
        res = ["exc", type(e).__name__, _site(e)]
    try:
        s = json.dumps(res, default=repr)
    except Exception:
        s = repr(res)
    return s.replace("_" + cl.sfx, "")


def _site(e):
    tb, site = e.__traceback__, None
    while tb is not None:
        fn = tb.tb_frame.f_code.co_filename
        if "/apischema/" in fn:
            site = fn.split("/apischema/")[-1][:-3].replace("/", ".") + ":" + tb.tb_frame.f_code.co_name
        tb = tb.tb_next
    return site


def build_values(cl):
    return [[S.build(cl.shape, t, d, cl.ns, cl.sfx) for d in cl.data[i]["valid"]] for i, t in enumerate(cl.shape["entries"])]


def all_calls(cl, first=True):
    """canonical list of calls: on the concurrent entry points (first=True) or on the follow-up types"""
    rng_e = range(cl.n_first) if first else range(cl.n_first, len(cl.types))
    calls = []
    for ei in rng_e:
        nd = len(cl.data[ei]["valid"]) + len(cl.data[ei]["bad"])
        nv = len(cl.data[ei]["valid"])
        if not first:
            nd, nv = min(nd, 3), 1
        calls += [("deserialize", ei, di) for di in range(nd)]
        calls += [("serialize", ei, di) for di in range(nv)]
        if first:
            calls += [("serialize_any", ei, di) for di in range(nv)]
        if cl.conv is not None and first:
            calls += [("serialize_conv", ei, di) for di in range(nv)]
        if not cl.shape.get("no_schema") and first:  # schema generation does not consult the recursion analysis
            calls += [("dschema", ei, 0), ("sschema", ei, 0)]
    return calls


class Twin:
    """sequential baseline: every call of the canonical list on a twin copy, single-threaded"""

    def __init__(self, ext, data, state, order_check=False):
        state.mon.clear()
        cl = S.Cluster(ext, _sfx())
        cl.data = data
        vals = build_values(cl)
        self.table = {}
        self.order_dependent = False
        self.seq_exception = None
        calls = all_calls(cl, True) + all_calls(cl, False)
        for c in calls:
            self.table[c] = out = perform(cl, vals, c)
            if out.startswith('["exc", "RecursionError"') or out.startswith('["exc", "AssertionError"'):
                self.seq_exception = out  # sequential defect of the analysis itself: not this property's business
                self.cache = {}
                cl.unload()
                return
        self.cache = {d: norm_entries(state.mon, d, cl.sfx) for d in ("deser", "ser")}
        if order_check:
            state.mon.clear()
            cl2 = S.Cluster(ext, _sfx())
            cl2.data = data
            vals2 = build_values(cl2)
            for c in reversed(calls):
                if perform(cl2, vals2, c) != self.table[c]:
                    self.order_dependent = True
            for d in ("deser", "ser"):
                c2 = norm_entries(state.mon, d, cl2.sfx)
                if any(c2.get(k, v) != v for k, v in self.cache[d].items()):
                    self.order_dependent = True
            cl2.unload()
        cl.unload()


_ADDR = re.compile(r" at 0x[0-9a-f]+")


def norm_key(key, sfx):
    return _ADDR.sub("", repr(key)).replace("_" + sfx, "")


def norm_entries(mon, direction, sfx):
    """current entries of the keys of one cluster (normalised repr -> value).  The cluster is fresh, so its keys are among
    the writes of the current observation window: no scan of the whole (never evicted) dictionary."""
    d = mon.dict_for(direction)
    out = {}
    if d is None:
        return out
    tag = "_" + sfx
    seen = set()
    for _, dr, key, _, _ in mon.writes:
        if dr != direction:
            continue
        try:
            if key in seen:
                continue
            seen.add(key)
        except TypeError:
            pass
        r = repr(key)
        if tag in r:
            v = dict.get(d, key)
            if v is not None:
                out[_ADDR.sub("", r).replace(tag, "")] = v
    return out


# ---------------------------------------------------------------------------------------------- state
def order_safe(state, ext):
    """Is the *sequential* result of the recursion analysis independent of the order in which the entry points are first
    used?  Brute force over all orders on fresh copies (real code as the oracle of its own sequential semantics).  A shape
    that fails is outside what this check can judge: 'what it returns in a sequential execution' is then not one value."""
    import itertools

    import apischema

    n = len(ext["entries"])
    ref = None
    perms = list(itertools.permutations(range(n))) if n <= 4 else [tuple(range(n)), tuple(reversed(range(n)))] + [tuple(range(i, n)) + tuple(range(i)) for i in range(1, n)]
    from apischema.json_schema import deserialization_schema, serialization_schema

    # every order of the entry points (compilation first), then every rotation with schema generation first: schema
    # generation serializes field defaults, i.e. it starts analyses from field types rather than from the entry points
    variants = [(perm, False) for perm in perms] + [(tuple(range(i, n)) + tuple(range(i)), True) for i in range(n)]
    for perm, schema_first in variants:
        state.mon.clear()
        cl = S.Cluster(ext, _sfx())
        try:
            if schema_first and not ext.get("no_schema"):
                for e in perm:
                    for f in (deserialization_schema, serialization_schema):
                        try:
                            f(cl.types[e])
                        except Exception:
                            pass
            for e in perm:
                for f in (apischema.deserialization_method, apischema.serialization_method):
                    try:
                        f(cl.types[e])
                    except (RecursionError, AssertionError) as ex:
                        return False, f"{type(ex).__name__} for entry order {perm}{' after schema generation' if schema_first else ''}"
                    except Exception:
                        pass
            cur = {d: norm_entries(state.mon, d, cl.sfx) for d in ("deser", "ser")}
            for d in ("deser", "ser"):
                dd = state.mon.dict_for(d)
                for tp, exp in cl.truth.items():
                    v = dict.get(dd, (tp, None)) if dd is not None else None
                    if v is not None and v is not exp:
                        return False, f"{norm_key((tp, None), cl.sfx)} cached {v} for entry order {perm}"
            if ref is None:
                ref = cur
            elif cur != ref:
                k = next((k for d in cur for k in cur[d] if ref[d].get(k) != cur[d][k]), "key set")
                return False, f"{k} differs between entry orders {perms[0]} and {perm}"
        finally:
            cl.unload()
    return True, None


class State:
    def __init__(self, env):
        self.env = env
        self.mon = Monitor()
        self.ok = self.mon.install()
        self.inj = Injector()
        self.shapes = S.fixed_shapes()
        self.twins = {}
        self.safe = {}
        self.orders = set()
        self.sched_sigs = set()
        self.hang = False
        self.fill_n = 0
        # the fixed shapes are split into 4 groups; a shard works on one group (twin baselines and order-safety checks are
        # the fixed cost of a shape), the shards of a group slice the group's schedule family between them
        self.rand_pool = []
        self.n_overl = 0
        self.rot = env.shard
        self.groups = min(4, env.nshards)
        self.group = env.shard % self.groups
        self.rank = env.shard // self.groups
        self.members = len([s for s in range(env.nshards) if s % self.groups == self.group])
        self.my_shapes = [n for i, n in enumerate(self.shapes) if i % self.groups == self.group]

    def twin(self, shape, data_seed):
        key = (shape["name"], data_seed)
        tw = self.twins.get(key)
        if tw is None:
            ext = S.extend(shape)
            sig = S.shape_sig(shape)
            if sig not in self.safe:
                if shape["name"].startswith("rand") and S.simple_cycles_only(shape):
                    # generated without overlapping cycles (criterion validated offline by brute force over analysis roots);
                    # the twin is additionally built twice, in opposite call orders
                    self.safe[sig] = (True, None)
                else:
                    self.safe[sig] = order_safe(self, shape)
                    self.env.count("order_safety_checks")
                    if self.safe[sig][0] and not S.simple_cycles_only(shape):
                        self.env.count("shapes_with_overlapping_cycles_admitted")
                if not self.safe[sig][0]:
                    self.env.count("abstain:shape_sequentially_order_dependent")
                    note = f"sequential recursion analysis is order dependent / unsound on shape {shape['name']}: {self.safe[sig][1]}"
                    if len(self.env.notes) < 6:
                        self.env.notes.append(note[:300])
            data = S.make_data(ext, random.Random(h64("data", S.shape_sig(shape), data_seed)))
            check = len(self.twins) % 5 == 0 or shape["name"].startswith("rand")
            tw = Twin(ext, data, self, order_check=check) if self.safe[sig][0] else Twin.__new__(Twin)
            if not self.safe[sig][0]:
                tw.order_dependent, tw.seq_exception, tw.table, tw.cache = True, None, {}, {}
            elif tw.seq_exception:
                tw.order_dependent = True
                self.env.count("abstain:twin_sequential_exception")
            tw.ext, tw.data, tw.data_seed = ext, data, data_seed
            if check:
                self.env.count("twin_order_checks")
            if tw.order_dependent and self.safe[sig][0] and not tw.seq_exception:
                self.env.count("abstain:twin_order_dependent")
            if len(self.twins) > 400:
                self.twins.clear()
            self.twins[key] = tw
        return tw

    def fresh(self, tw):
        cl = S.Cluster(tw.ext, _sfx())
        cl.data = tw.data
        return cl, build_values(cl)


def evict(state):
    """what a user can do without touching internals: compile > 128 unrelated types in both directions, so that the lru
    caches (maxsize 128: is_recursive, the method factories, DeserializationMethodFactory._method) drop the cluster"""
    import apischema

    n = 150
    try:  # stay above the largest lru size if someone changes it (cache_info is public functools API)
        from apischema import cache as acache

        n = max(n, max((f.cache_info().maxsize or 0) for f in acache._cached if hasattr(f, "cache_info")) + 22)
    except Exception:
        pass
    for i in range(min(n, 2000)):
        tp = Literal[100000 + i]  # type: ignore
        apischema.deserialization_method(tp)
        apischema.serialization_method(tp)
    state.fill_n += 1


# ---------------------------------------------------------------------------------------------- oracles after join
def judge_concurrent(state, workload, shape, cl, tw, records, extra, suspect):
    """records: list of (thread index, call, outcome string, overlapped?)"""
    env = state.env
    bad = 0
    for ti, call, out, nthreads in records:
        exp = tw.table[call]
        env.case(workload, shape["name"], call, extra.get("sig"), nontrivial=nthreads >= 2)
        env.count("concurrent_calls")
        env.count("outcome:" + (json.loads(out)[0] if out.startswith("[") else "?"))
        if out == exp:
            continue
        bad += 1
        o = json.loads(out) if out.startswith("[") else ["?", out]
        if o[0] == "exc":
            feats = {"kind": "concurrent-exception", "exc": o[1], "op": call[0], "recursive_cluster": bool(cl.cycle_names), "cache_suspect": bool(suspect)}
        else:
            feats = {"kind": "concurrent-result-differs", "op": call[0], "got": o[0], "recursive_cluster": bool(cl.cycle_names), "cache_suspect": bool(suspect)}
        env.violation(feats, dict(extra, workload=workload, shape=shape, call=list(call), thread=ti, observed=out[:1500], expected=exp[:1500],
                                  site=(o[2] if len(o) > 2 else None), data_seed=extra.get("data_seed")))
    return bad


def quiescence(state, cl, tw):
    """recursion dictionaries vs ground truth by construction and vs the twin's entries; returns list of mismatches"""
    env, mon = state.env, state.mon
    mism = []
    for direction in ("deser", "ser"):
        d = mon.dict_for(direction)
        if d is None:
            continue
        for tp, exp in cl.truth.items():
            v = dict.get(d, (tp, None))
            if v is None:
                env.count("quiescence_truth_absent")
                continue
            env.count("quiescence_truth_checks")
            if v is not exp:
                mism.append({"direction": direction, "key": norm_key((tp, None), cl.sfx), "cached": v, "truth": exp, "by": "construction"})
        mine = norm_entries(mon, direction, cl.sfx)
        theirs = tw.cache[direction]
        for k, v in mine.items():
            if k in theirs:
                env.count("quiescence_twin_key_checks")
                if theirs[k] != v and not any(m["key"] == k and m["direction"] == direction for m in mism):
                    mism.append({"direction": direction, "key": k, "cached": v, "truth": theirs[k], "by": "twin"})
            else:
                env.count("quiescence_key_not_in_twin")
    return mism


def followup(state, workload, shape, cl, vals, tw, mism, nonmono, extra, do_evict=True):
    """eviction follow-up: evict, then use the cluster again through every entry point and through new embedding types"""
    env, mon = state.env, state.mon
    suspect = bool(mism or nonmono)
    if do_evict:
        evict(state)
    reads0 = sum(getattr(mon.dict_for(d), "reads", 0) for d in ("deser", "ser") if mon.dict_for(d) is not None)
    env.count("followups")
    diffs = []
    for call in all_calls(cl, True) + all_calls(cl, False):
        out = perform(cl, vals, call)
        env.count("followup_calls")
        if out != tw.table[call]:
            diffs.append((call, out, tw.table[call]))
            if len(diffs) >= 3:  # enough for a verdict (every RecursionError costs a full stack unwinding)
                break
    reads1 = sum(getattr(mon.dict_for(d), "reads", 0) for d in ("deser", "ser") if mon.dict_for(d) is not None)
    env.count("followup_recursion_dict_reads", reads1 - reads0)
    mism2 = quiescence(state, cl, tw) if not mism else mism
    if diffs:
        call, out, exp = diffs[0]
        o = json.loads(out) if out.startswith("[") else ["?", out]
        obs = o[1] if o[0] == "exc" else "result-differs"
        if suspect or mism2:
            feats = {"kind": "recursion-cache-poisoned", "observable": obs, "op": call[0]}
        else:
            feats = {"kind": "followup-differs", "observable": obs, "op": call[0]}
        env.violation(feats, dict(extra, workload=workload, shape=shape, call=list(call), observed=out[:1500], expected=exp[:1500],
                                  cache_mismatches=mism2[:8], nonmonotonic=nonmono[:8], differing_calls_at_least=len(diffs)))
    elif suspect or mism2:
        env.count("suspect_not_observable")
        if len(env.notes) < 5:
            env.notes.append("suspect (not observable after eviction): " + json.dumps({"shape": shape["name"], "mismatch": (mism or mism2)[:3], "nonmono": nonmono[:3]}, default=str)[:400])
    return bool(diffs)


def write_order_sig(mon, cl):
    """order of the monitored writes on this cluster's keys, with threads relabelled by first appearance"""
    tag = "_" + cl.sfx
    rel, sig = {}, []
    for tid, direction, key, old, new in mon.writes:
        r = repr(key)
        if tag not in r:
            continue
        t = rel.setdefault(tid, len(rel))
        sig.append((t, direction, _ADDR.sub("", r).replace(tag, ""), new))
    return sig


def nonmono_for(mon, cl):
    """True -> False overwrites, plus keys that were written with two different values at all (a reader in between may
    have kept the other value in the is_recursive lru cache)"""
    tag = "_" + cl.sfx
    seen, flips = {}, []
    for _, d, k, o, n in mon.writes:
        if (d, k) in seen and seen[(d, k)] is not n and tag in repr(k) and n is True:
            flips.append({"direction": d, "key": norm_key(k, cl.sfx), "old": seen[(d, k)], "new": n})
        seen[(d, k)] = n
    return flips + [{"direction": d, "key": norm_key(k, cl.sfx), "old": o, "new": n} for _, d, k, o, n in mon.nonmono if tag in repr(k)]


# ---------------------------------------------------------------------------------------------- (a) + (c): stress / yields
def thread_programs(cl, nthreads, rng):
    """thread i enters through a different member / operation; afterwards a few more calls in random order"""
    calls = all_calls(cl, True)
    heavy = [c for c in calls if c[0] in ("deserialize", "serialize", "serialize_conv", "serialize_any") and c[2] == 0]
    schema = [c for c in calls if c[0] in ("dschema", "sschema")]
    progs = []
    same_dir = rng.random() < 0.6  # most batches: every thread starts in the same direction (shared recursion dictionary)
    first_op = rng.choice(["deserialize", "serialize", "serialize_any"])
    for i in range(nthreads):
        if schema and rng.random() < 0.3:  # schema generation as the very first use (it never waits for an analysis)
            cand = schema
        else:
            cand = [c for c in heavy if (c[0] == first_op or not same_dir)] or heavy
        by_entry = [c for c in cand if c[1] == (i % cl.n_first)] or cand
        first = rng.choice(by_entry)
        rest = rng.sample(calls, min(len(calls), 5))
        progs.append([first] + rest)
    if rng.random() < 0.3:  # lockstep batches: every thread runs the same program (tight check-then-act races need it)
        progs = [list(progs[0]) for _ in progs]
    return progs


def run_batch(state, workload, jobs, nthreads, yield_p, seed):
    """jobs: list of (shape, cl, vals, tw, programs).  One barrier before every cluster."""
    env, mon, inj = state.env, state.mon, state.inj
    mon.clear()
    barrier = threading.Barrier(nthreads)
    clock = [0]
    clock_lock = threading.Lock()
    recs = [[[] for _ in range(nthreads)] for _ in jobs]  # per job, per thread: (call, out, start, end, isrec_calls)
    pols = [Policy("yield" if yield_p else "count", rng=random.Random(h64("yield", seed, i)), p=yield_p) for i in range(nthreads)]
    errors = []

    def tick():
        with clock_lock:
            clock[0] += 1
            return clock[0]

    def work(i):
        try:
            inj.set_policy(pols[i])
            tid = threading.get_ident()
            for ji, (shape, cl, vals, tw, progs) in enumerate(jobs):
                try:
                    barrier.wait(120)
                except threading.BrokenBarrierError:
                    return
                for call in progs[i]:
                    c0 = mon.per_thread_isrec.get(tid, 0)
                    t0 = tick()
                    out = perform(cl, vals, call)
                    t1 = tick()
                    recs[ji][i].append((call, out, t0, t1, mon.per_thread_isrec.get(tid, 0) - c0))
        except BaseException as e:  # harness problem, not a verdict
            errors.append(repr(e))
            barrier.abort()

    old = sys.getswitchinterval()
    sys.setswitchinterval(1e-6)
    threads = [threading.Thread(target=work, args=(i,), daemon=True) for i in range(nthreads)]
    try:
        for t in threads:
            t.start()
        deadline = time.time() + 180
        for t in threads:
            t.join(max(0.1, deadline - time.time()))
    finally:
        sys.setswitchinterval(old)
    if any(t.is_alive() for t in threads):
        state.hang = True
        env.inconclusive.append(f"hang: {workload} batch of {nthreads} threads did not finish within 180 s (shapes {[j[0]['name'] for j in jobs]})")
        return
    if errors:
        env.inconclusive.append("harness error in worker thread: " + errors[0][:300])
        return
    env.count("threads_started", nthreads)
    env.count(f"threads:{nthreads}")
    env.count("hook_events", sum(p.events for p in pols))
    env.count("injected_yields", sum(p.yields for p in pols))
    env.count("monitored_cache_writes", len(mon.writes))
    for name in ("overlap_in_analysis", "overlap_in_checker", "analysis_needed", "is_recursive_calls", "checker_runs"):
        env.count(name, mon.window[name])
    env.count("nonmonotonic_writes", len(mon.nonmono))
    # -------- per cluster: overlap measured at the boundary, oracles
    for ji, (shape, cl, vals, tw, progs) in enumerate(jobs):
        env.count("stress_clusters" if workload == "stress" else "yield_clusters")
        env.count("shape:" + (shape["name"] if not shape["name"].startswith("rand") else "random"))
        flat = [(i, r) for i in range(nthreads) for r in recs[ji][i]]
        compiling = [(i, r) for i, r in flat if r[4] > 0]
        over = 0
        for i, r in compiling:
            if any(i2 != i and r2[2] < r[3] and r[2] < r2[3] for i2, r2 in compiling):
                over += 1
        env.count("first_use_calls", len(compiling))
        env.count("overlap_first_use_calls", over)
        if over:
            env.count("clusters_with_overlapped_first_use")
        allover = sum(1 for i, r in flat if any(i2 != i and r2[2] < r[3] and r[2] < r2[3] for i2, r2 in flat))
        env.count("overlap_any_calls", allover)
        sig = write_order_sig(mon, cl)
        hsig = h64(shape["name"], sig)
        if hsig not in state.orders:
            state.orders.add(hsig)
            env.count("distinct_cache_write_orders")
        nonmono = nonmono_for(mon, cl)
        mism = quiescence(state, cl, tw)
        if mism:
            env.count("clusters_with_cache_mismatch")
        extra = {"threads": nthreads, "programs": [[list(c) for c in p] for p in progs], "yield_p": yield_p, "batch_seed": seed,
                 "data_seed": tw.data_seed, "sig": nthreads, "cache_mismatches": mism[:8], "nonmonotonic": nonmono[:8],
                 "write_order": [list(map(str, s)) for s in sig[:40]]}
        records = [(i, r[0], r[1], nthreads) for i, r in flat]
        judge_concurrent(state, workload, shape, cl, tw, records, extra, mism or nonmono)
        env.sample({"workload": workload, "shape": shape["name"], "threads": nthreads, "first_calls": [list(p[0]) for p in progs], "overlapped_first_use_calls": over,
                    "cache_writes": len(sig)})
    # -------- one eviction pass serves every cluster of the batch; each cluster gets its own verdict
    evict(state)
    for ji, (shape, cl, vals, tw, progs) in enumerate(jobs):
        nonmono = nonmono_for(mon, cl)
        mism = quiescence(state, cl, tw)
        extra = {"threads": nthreads, "programs": [[list(c) for c in p] for p in progs], "yield_p": yield_p, "batch_seed": seed, "data_seed": tw.data_seed}
        followup(state, workload, shape, cl, vals, tw, mism, nonmono, extra, do_evict=False)
        cl.unload()


def stress(state, workload, n_clusters, yield_p, until):
    env = state.env
    rng = env.rng
    names = list(state.shapes)
    done = 0
    bi = 0
    while done < n_clusters and not state.hang:
        if time.time() > until and bi >= 2:  # at least two batches whatever the load: a phase that never ran is inconclusive
            env.count(workload + "_clusters_skipped_time_cap", n_clusters - done)
            break
        nthreads = [2, 4, 8, 16][bi % 4] if not env.quick() or bi % 8 != 7 else 2
        if env.quick() and nthreads == 16 and bi % 8 != 3:
            nthreads = 4
        per_batch = min(3, n_clusters - done)
        jobs = []
        seed = rng.randrange(1 << 30)
        brng = random.Random(seed)
        for _ in range(per_batch):
            if brng.random() < (0.2 if env.quick() else 0.3):
                if not state.rand_pool or (brng.random() < 0.4 and len(state.rand_pool) < (6 if env.quick() else 400)):
                    # one in three: unconstrained digraph (overlapping cycles); it is only used if the brute force over
                    # first-use orders finds the sequential analysis order independent on it (else: counted abstention)
                    overl = brng.random() < 0.34 and state.n_overl < (2 if env.quick() else 60)
                    state.n_overl += overl
                    gen = S.random_digraph if overl else S.random_shape
                    state.rand_pool.append(gen(brng, brng.randrange(1 << 20)))
                    shape = state.rand_pool[-1]
                else:
                    shape = brng.choice(state.rand_pool)
            else:
                pool = state.my_shapes if env.quick() else names
                state.rot += 1
                shape = state.shapes[pool[state.rot % len(pool)]]
            ds = brng.randrange(2 if env.quick() else 6)
            tw = state.twin(shape, ds)
            tw.data_seed = ds
            if tw.order_dependent:
                continue
            cl, vals = state.fresh(tw)
            jobs.append((shape, cl, vals, tw, thread_programs(cl, nthreads, brng)))
        if jobs:
            run_batch(state, workload, jobs, nthreads, yield_p, seed)
        done += per_batch
        bi += 1


# ---------------------------------------------------------------------------------------------- (b) systematic schedules
SCHED_SHAPES = ["mutual2", "mutual3", "self", "tailcycle", "nested", "mutual2list", "unionrec", "convreg", "convlazy", "recconv", "fieldconv", "lazyrec", "validated", "mdvalidated", "flattened",
                "selftree", "gentree", "plain", "generic"]
OP_PAIRS = [("deserialize", "deserialize"), ("serialize", "serialize"), ("deserialize", "serialize"), ("dschema", "deserialize"), ("sschema", "serialize"),
            ("dschema", "dschema"), ("serialize_conv", "serialize_conv"), ("serialize_any", "serialize_any")]


def sched_cases(state):
    """(shape name, entry A, entry B, op A, op B); the primary ones (same direction, two different members) first"""
    cases = []
    for name in SCHED_SHAPES:
        shape = state.shapes[name]
        n = len(shape["entries"])
        pairs = [(0, 1 % n), (1 % n, 0), (0, 0)] + ([(2, 0)] if n > 2 else [])
        for ea, eb in pairs:
            for oa, ob in OP_PAIRS:
                if "serialize_conv" in (oa, ob) and not shape.get("lazyrec"):
                    continue
                if shape.get("no_schema") and ("dschema" in (oa, ob) or "sschema" in (oa, ob)):
                    continue
                cases.append((name, ea, eb, oa, ob))
    prim = [c for c in cases if c[3] == c[4] and c[1] != c[2] and c[3] in ("deserialize", "serialize")]
    rest = [c for c in cases if c not in prim]
    return prim, rest


def prog_for(cl, entry, op):
    """program of one schedule thread: first use through `entry`, then the next member, then every datum through both
    (run-time only: cheap, but they are what makes a mis-compiled method visible)"""
    other = (entry + 1) % cl.n_first
    op2 = op if op in ("deserialize", "serialize", "serialize_conv", "serialize_any") else "deserialize"
    prog = [(op, entry, 0), (op2, other, 0)]
    for e in (entry, other):
        nd = len(cl.data[e]["valid"]) + (len(cl.data[e]["bad"]) if op2 == "deserialize" else 0)
        prog += [(op2, e, di) for di in range(1, nd)]
    return prog


def run_two(state, cl, vals, prog_a, prog_b, k, j):
    """execute one schedule; returns (records, sched, policies) or None on hang"""
    inj, mon = state.inj, state.mon
    mon.clear()
    sched = Schedule(k, j)
    pa, pb = Policy("sched", sched=sched, role="A"), Policy("sched", sched=sched, role="B")
    recs = {"A": [], "B": []}

    def run(role, pol, prog):
        try:
            inj.set_policy(pol)
            if role == "B":
                sched.wait_a_parked_or_done()
            for call in prog:
                recs[role].append((call, perform(cl, vals, call)))
        finally:
            sched.done(role)

    ta = threading.Thread(target=run, args=("A", pa, prog_a), daemon=True)
    tb = threading.Thread(target=run, args=("B", pb, prog_b), daemon=True)
    ta.start()
    tb.start()
    if not sched.supervise(ta, tb, hang_after=120.0):
        return None
    return recs, sched, pa, pb


def solo_events(state, tw, prog_of, entry, op):
    """solo run of one schedule thread: number of hook events and, per hook site, the indices of its first and last event"""
    cl, vals = state.fresh(tw)
    pol = Policy("trace")
    state.inj.set_policy(pol)
    try:
        for call in prog_of(cl, entry, op):
            perform(cl, vals, call)
    finally:
        state.inj.set_policy(None)
    cl.unload()
    occ = {}
    for i, site in enumerate(pol.trace):
        occ.setdefault(site, [i + 1, i + 1])[1] = i + 1
    return pol.events, occ


def one_schedule(state, case, k, j, tw, force_followup=False):
    env, mon = state.env, state.mon
    name, ea, eb, oa, ob = case
    shape = state.shapes[name] if isinstance(name, str) else name
    cl, vals = state.fresh(tw)
    prog_a, prog_b = prog_for(cl, ea, oa), prog_for(cl, eb, ob)
    res = run_two(state, cl, vals, prog_a, prog_b, k, j)
    if res is None:
        state.hang = True
        env.inconclusive.append(f"hang: schedule {case} k={k} j={j} did not finish within 120 s")
        return
    recs, sched, pa, pb = res
    env.count("schedules_executed")
    env.count("threads_started", 2)
    env.count("hook_events", pa.events + pb.events)
    if sched.a_parked:
        env.count("schedules_parked")
    else:
        env.count("schedules_a_finished_before_k")
    if sched.b_parked:
        env.count("schedules_b_parked_at_j")
    if sched.stalls:
        env.count("schedules_with_stall", 1)
    env.count("monitored_cache_writes", len(mon.writes))
    for nm in ("overlap_in_analysis", "overlap_in_checker", "analysis_needed", "is_recursive_calls", "checker_runs"):
        env.count(nm, mon.window[nm])
    # first uses overlapped: A was parked inside its first-use call while B performed its own
    if sched.a_parked and pb.events > 0:
        env.count("overlap_first_use_calls", 2)
    ssig = h64(shape["name"], ea, eb, oa, ob, k, j)
    if ssig not in state.sched_sigs:
        state.sched_sigs.add(ssig)
        env.count("distinct_schedules")
    sig = write_order_sig(mon, cl)
    hsig = h64(shape["name"], sig)
    if hsig not in state.orders:
        state.orders.add(hsig)
        env.count("distinct_cache_write_orders")
    nonmono = nonmono_for(mon, cl)
    env.count("nonmonotonic_writes", len(nonmono))
    mism = quiescence(state, cl, tw)
    if mism:
        env.count("schedules_with_cache_mismatch")
    schedule = {"shape": shape["name"], "entry": [ea, eb], "ops": [oa, ob], "park": {"thread": "A", "event": k, "site": sched.park_site},
                "until": "B-done" if j is None else {"B-event": j, "site": sched.b_site}, "stalls": sched.stalls}
    extra = {"schedule": schedule, "data_seed": tw.data_seed, "sig": (k, j), "cache_mismatches": mism[:8], "nonmonotonic": nonmono[:8],
             "write_order": [list(map(str, s)) for s in sig[:40]]}
    records = [(r, c, o, 2) for r in ("A", "B") for c, o in recs[r]]
    bad = judge_concurrent(state, "sched", shape, cl, tw, records, extra, mism or nonmono)
    if mism or nonmono or bad or force_followup:
        followup(state, "sched", shape, cl, vals, tw, mism, nonmono, {"schedule": schedule, "data_seed": tw.data_seed})
    if env.evaluations % 50 == 0:
        env.sample({"workload": "sched", "schedule": schedule, "events": [pa.events, pb.events], "cache_writes": len(sig)})
    cl.unload()


def systematic(state, budget, until):
    """the family: for every case, every park point k of A (1 .. K_A + 1) x {B to completion, B to its j-th event};
    core = the two-member cluster entered from both members in the same direction, all k, on every run; the rest of the
    family is visited in a seed-dependent pseudo-random order, sliced by shard, up to the budget."""
    env = state.env
    prim, rest = sched_cases(state)
    core, plan = [], []
    solo = {}

    def K(name, tw, e, op):
        key = (name, e, op)
        if key not in solo:
            solo[key] = solo_events(state, tw, prog_for, e, op)
            env.count("solo_runs")
        return solo[key]

    prio = {}
    for ci, case in enumerate(prim + rest):
        name, ea, eb, oa, ob = case
        if name not in state.my_shapes:
            continue
        primary = ci < len(prim)
        if env.quick() and not primary and h64("case", env.seed, case) % 3:
            continue  # quick tier: one third of the secondary cases, chosen by the seed
        tw = state.twin(state.shapes[name], 0)
        if tw.order_dependent:
            continue
        (ka, sites), (kb, _) = K(name, tw, ea, oa), K(name, tw, eb, ob)
        is_core = name == "mutual2" and (ea, eb) == (0, 1) and oa == ob == "deserialize"
        if not is_core:
            for site, (k1, k2) in sites.items():  # every hook site of A's solo run is a candidate park point (first and last event)
                if env.quick() and site[0].startswith(("RecursiveChecker.", "RecursiveConversionsVisitor.")):
                    continue  # quick tier: the analysis / visitor lines are left to the core and to the random part of the plan
                prio.setdefault((name, site), []).append((case, k1, None))
                if k2 != k1:
                    prio.setdefault((name, site), []).append((case, k2, None))
        for k in range(1, ka + 2):  # ka + 1: "A finished before its k-th event" belongs to the family
            (core if is_core else plan).append((case, k, None))
            if kb > 4:
                for q in (1, 2, 3):
                    plan.append((case, k, max(1, (kb * q) // 4)))
    if state.rank == 0:
        env.count("schedule_family_size", len(core) + len(plan))
        env.count("shape_x_hook_sites_in_family", len(prio))
    mine = [p for i, p in enumerate(core) if i % state.members == state.rank]
    prng = random.Random(h64("plan", env.seed, state.group))  # same sample in every shard of the group, then sliced
    left = max(0, budget - len(mine)) * state.members
    # 60 % of what is left: round robin over the hook sites (every site is a park point in some case before any site gets a
    # second case), so that rarely executed lazy initialisations get the same attention as the hot visitor lines
    for site in sorted(prio):
        prng.shuffle(prio[site])
    rr, want = [], (left * 3) // 5
    while len(rr) < want and any(prio.values()):
        for site in sorted(prio):
            if prio[site] and len(rr) < want:
                rr.append(prio[site].pop())
    idx = prng.sample(range(len(plan)), min(len(plan), left - len(rr)))
    mixed = rr + [plan[i] for i in idx]
    prng.shuffle(mixed)
    mine += mixed[state.rank :: state.members]
    for n, (case, k, j) in enumerate(mine):
        if (time.time() > until and n >= 12) or state.hang:
            env.count("schedules_skipped_time_cap", len(mine) - n)
            break
        tw = state.twin(state.shapes[case[0]], 0)
        one_schedule(state, case, k, j, tw, force_followup=(n % 25 == 0))


# ---------------------------------------------------------------------------------------------- entry points
def run(env):
    state = State(env)
    if not state.ok:
        env.inconclusive.append("apischema.recursion.recursion_cache / is_recursive / RecursiveChecker not found: monitors cannot be attached")
        return
    for m in state.inj.missing:
        env.count("hook_target_missing:" + m)
    env.count("hook_code_objects", len(state.inj.codes))
    state.inj.enable()
    cap = env.time_cap
    try:
        # budgets are counts; the per-phase time slices only guard the tier's wall-clock limit
        t = time.time()
        systematic(state, env.n(2000, 64000), env.t0 + 0.45 * cap)
        env.count("phase_ms:systematic", int(1000 * (time.time() - t)))
        t = time.time()
        if not state.hang:
            stress(state, "stress", env.n(192, 3200), 0.0, env.t0 + 0.78 * cap)
        env.count("phase_ms:stress", int(1000 * (time.time() - t)))
        t = time.time()
        if not state.hang:
            stress(state, "yield", env.n(128, 1600), 0.08, env.t0 + cap)
        env.count("phase_ms:yield", int(1000 * (time.time() - t)))
    finally:
        if not state.hang:
            state.inj.disable()
    env.count("eviction_passes", state.fill_n)
    env.count("cache_resets_observed", state.mon.totals["resets"])


def replay(env, rep):
    w = rep["witness"]
    state = State(env)
    state.inj.enable()
    shape = w["shape"]
    state.shapes[shape["name"]] = shape
    tw = state.twin(shape, w.get("data_seed") or 0)
    tw.data_seed = w.get("data_seed") or 0
    if w.get("workload") == "sched":
        s = w["schedule"]
        j = None if s["until"] == "B-done" else s["until"]["B-event"]
        case = (shape["name"], s["entry"][0], s["entry"][1], s["ops"][0], s["ops"][1])
        for _ in range(3):
            one_schedule(state, case, s["park"]["event"], j, tw, force_followup=True)
            if env.violations:
                break
    else:
        n = w.get("threads", 4)
        for attempt in range(60):
            cl, vals = state.fresh(tw)
            progs = [[tuple(c) for c in p] for p in w["programs"]]
            run_batch(state, w.get("workload", "stress"), [(shape, cl, vals, tw, progs)], n, w.get("yield_p", 0.0), (w.get("batch_seed") or 0) + attempt)
            if env.violations or state.hang:
                break
    print(json.dumps({"counters": {k: v for k, v in env.counters.items() if not k.startswith(("outcome", "shape"))}}, indent=1)[:3000])


def finish_coverage(cov, counters, tier):
    cov["c20"] = {
        "threads_started": counters.get("threads_started", 0),
        "thread_counts": {k.split(":")[1]: v for k, v in counters.items() if k.startswith("threads:")},
        "first_use_calls_overlapped": counters.get("overlap_first_use_calls", 0),
        "analyses_overlapped (>=2 threads inside an analysis-needing is_recursive at once)": counters.get("overlap_in_analysis", 0),
        "checker_runs_overlapped (>=2 threads inside RecursiveChecker at once)": counters.get("overlap_in_checker", 0),
        "distinct_cache_write_orders (sum over shards)": counters.get("distinct_cache_write_orders", 0),
        "distinct_schedules": counters.get("distinct_schedules", 0),
        "schedules_parked": counters.get("schedules_parked", 0),
        "injected_yields": counters.get("injected_yields", 0),
        "hook_events": counters.get("hook_events", 0),
        "recursion-dictionary keys overwritten with a different value (True->False or flip)": counters.get("nonmonotonic_writes", 0),
        "suspect_not_observable": counters.get("suspect_not_observable", 0),
        "eviction_followups": counters.get("followups", 0),
    }
